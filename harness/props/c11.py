"""
C11 — the processing pipeline means what its options say.

Tie: strict Rat correspondence of `TimeSeries.get` (window / resample step / resample array / stage combinations),
`interpolate`, `resample`, `modify` with the Lean model on dyadic series. The stage functions (`taper`, the four filters,
`smooth`) are patched in `qats.ts` by non-commuting *tag functions* (x+1, 2x+dt, x²) — the same tags the driver uses — so
stage order and the sampling interval handed to the filter are visible in the compared output.
Search: the property's clauses on the unpatched implementation + float exploration of (start, end, dt) for `resample`.
Requested time arrays are sorted or unsorted, as ndarray or list, with out-of-span values (far / one ulp outside) at any
position; the clauses are evaluated on a fresh object and after a *history* on the same object. A history interleaves
`get(...)` with the other query methods of TimeSeries (minima / maxima / min / max / mean / std / skew / kurtosis / rfc / psd /
stats / interpolate / resample / filter / copy / the properties; a query must not change what later queries return, whatever
the caller does with the arrays it got back) and with in-place changes of the stored arrays (set_dtg_ref, element edits of
ts.x / ts.t, scaling, shifting, re-assignment, modify): after a change the *currently stored* samples are the reference. The
"stored arrays" clauses are evaluated after every step of the history (checkpoints), so an earlier query is always followed
by a later one on the same object.

Classes of inputs added after the audit of the seeded-change rounds (each one a class inside the quantifier, none aimed at a change):
* spellings — window limits as tuple / list / ndarray / numpy scalars / integers; step as float / numpy double / numpy single /
  integer; requested times as ndarray / list / strided view / integer array / the same ndarray object handed to several calls;
  filter arguments as tuple / list; options by keyword or all positional; the same request through TimeSeries.filter(), modify(),
  min / max / mean, TsDB.geta / getda / to_dataframe and qats.app.funcs.calculate_trace; series built from float / integer /
  single-precision arrays, strided views, datetime objects, or two objects from the very same source arrays;
* boundaries — windows whose limits are sample times, one ulp beside a sample, a single instant, reversed, unbounded (inf), the
  whole span; options that ask for nothing (taperfrac 0, window_len 0 / 1, a window containing everything, every option None);
  series of one and two samples; data in another unit (x 2^+-60, 2^+-200) and time on an offset of 2^30 .. 2^40 (tolerances relative
  to the unit / to ulp(|t|)); constant and integer-valued data;
* histories — operations that must be refused (14 kinds) followed by valid ones; the same window / step / array asked earlier with
  another setting; modify(resample=step / array) as in-place change; the first / last stored time edited in place and the time axis
  re-scaled in place (span and average step change, the array object does not); the derived quantities (dt, is_constant_dt, ...)
  read at every checkpoint; two series with the same time axis queried alternately with the same options; after every history
  also a *tagged* request and an interpolation on the same object against the Lean model of the series as stored then;
* references — stand-alone resampling on decimal grids is observed through an identity signal (x = t: the values are the new times)
  and compared with numpy.interp; get(resample=step) on decimal grids is explored too (never raises, ends on the stored ends);
* crashes — every case is wrapped: an exception of the implementation is a failing clause;
* the stage functions as they are (stream `real-stages`) — the tag functions make order and sampling interval visible but hide what
  the real taper / filters / smoothing return, so every stage combination is also requested unpatched, with the stages' own parameter
  ranges (taper fraction 0 .. 1, five filter kinds at 5 - 90 % of the Nyquist frequency, smoothing windows of every length from 0 to
  the number of retained samples — even and odd — and all five window functions), on float series of 3 - 256 samples (uniform /
  non-uniform), several requests per object, directly and through positional / TsDB.geta / getda / to_dataframe / modify: time and
  data have equal length, the stages leave the time array alone, the stages asked together give what the later stages give on a
  series holding the result of the earlier ones (order), the entry points agree, the stored arrays are untouched;
* several series in one request (stream `containers`) — the entry points that take a container of series and one window
  (qats.app.funcs.calculate_trace / calculate_gumbel_fit, TsDB.getda with a list of names) with 2 - 4 series covering different time
  spans, named in any order, several requests per container, windows reaching beyond some of the series only: the window clause holds
  for every series of the request, and a series named together with others gets what it gets alone.
"""
from datetime import datetime, timedelta
from fractions import Fraction

import numpy as np

from .. import core
from . import c11_smooth
from . import c11_long
from ..core import rat

USES_TRANSLATOR = True          # the cosine flanks of the Tukey window (tk_rise, tk_fall) are regenerated from qats/signal.py
ANCHOR_PREFIX = ("tk_", "grid_")

SMOOTH_RULE = ("Smoothing / tapering stages (Lean model Qats.Smooth, Float): signal.smooth for window lengths 1..12 (odd and even) "
               "against signal lengths below / equal / just above / well above the window, five window functions; signal.taper for "
               "Tukey fractions 0.001..0.999; histories of 1-4 get(window_len=…) / get(taperfrac=…) requests on one object. A case is "
               "non-trivial when the stage really computes (window of 3 samples or more on a longer signal; any taper).")
RULE = ("seeded dyadic series (3-40 samples; uniform with power-of-two steps, or non-uniform dyadic steps) x windows (inside / "
        "partially outside / exactly on samples / empty) x resample step / array (inside and outside the span) x all 8 stage "
        "combinations; requested arrays sorted / shuffled / with repeats, out-of-span values at any position (first, interior, last; "
        "far or one ulp outside), passed as ndarray or list to get(resample=) and interpolate(); every clause also after a history "
        "of 0-4 earlier steps on the same object: get() calls (taper / filter / smooth / window / resample combinations), the "
        "other query methods (minima, maxima, min, max, mean, std, skew, kurtosis, rfc, psd, stats, interpolate, resample, filter, "
        "copy, properties; with and without get-options; also a get() whose returned arrays the caller edits in place) and "
        "in-place changes of the stored arrays (set_dtg_ref with / without reference, ts.x[i] edits, ts.x scaling, ts.t shift / "
        "element move, ts.x re-assignment, modify(twin)), the stored-array clauses being re-evaluated after every step "
        "(checkpoints) and the remaining inputs generated relative to the series as stored after the history; every "
        "tagged get() issued twice; float exploration of decimal (start, dt, n) for stand-alone resampling; non-trivial = any "
        "option set; distinct by (series, options). Every request also in other spellings (window as tuple / list / ndarray / numpy "
        "scalars / integers, step as float / np.float64 / np.float32 / int, times as ndarray / list / strided view / integer array, "
        "filterargs as tuple / list, keyword / positional, through filter() / modify() / min / max / mean / TsDB.geta / getda / "
        "to_dataframe / app.funcs.calculate_trace; series from float / int / float32 arrays, views, datetime objects, shared source "
        "arrays); windows on the boundary (limits = sample times, one ulp beside, single instant, reversed, infinite, whole span); "
        "options that ask for nothing; series of 1 / 2 samples, data x 2^(+-60, +-200), time offsets 2^30 .. 2^40; histories with refused "
        "operations (14 kinds), the same key argument under another setting, modify(resample=...), in-place edits of the first / last "
        "time and re-scaling of the time axis, two series queried alternately; after each history a tagged request and an "
        "interpolation on the same object against the model; decimal grids far from zero for resample() and get(resample=step), "
        "new times observed through an identity signal; stream real-stages: float series of 3-256 samples x 1-3 requests per object "
        "with the unpatched stage functions (taper fraction 0..1, lp / hp / bp / bs / tp, smoothing window lengths 0..number of "
        "retained samples both even and odd, five window functions, after window / step / array resampling, via get / positional / "
        "geta / getda / to_dataframe / modify): equal length of time and data, time array untouched by the stages, "
        "stages together = later stages on a series holding the earlier ones' result; stream containers: 2-4 float series covering "
        "different time spans (disjoint / overlapping / nested / identical, different steps) named together in any order in 1-3 "
        "requests with one window (far wider than all, hull, beyond the start / end of some only, limits = first / last times, inside "
        "the intersection) with / without filter through app.funcs.calculate_trace / calculate_gumbel_fit / TsDB.getda(names=[..]): "
        "every series gets exactly its stored samples inside the closed window (with a filter: what the series alone gives), the "
        "peaks / troughs reported with the trace lie in the window and are those of the series alone")


class Tags:
    """patch the stage functions in qats.ts with tag functions; records the calls"""

    def __init__(self):
        import qats.ts as m
        self.m = m
        self.saved = {}
        self.calls = []

    def __enter__(self):
        m = self.m

        def taper(x, *a, **kw):
            self.calls.append(("taper", kw.get("alpha", a[1] if len(a) > 1 else None)))
            return np.asarray(x, dtype=float) + 1.0, 1.0

        def mkfilter(name):
            def f(x, *a, **kw):                      # positional or keyword call: (x, dt, fc…, order=…)
                dt = kw.get("dt", a[0] if a else None)
                nf = 1 if name in ("lowpass", "highpass") else 2
                fr = list(a[1:1 + nf]) + [kw[k] for k in ("fc", "flow", "fupp") if k in kw]
                self.calls.append((name, float(dt), [float(v) for v in fr]))
                return 2.0 * np.asarray(x, dtype=float) + dt
            return f

        def smooth(x, *a, **kw):
            self.calls.append(("smooth", kw.get("window_len", a[0] if a else None), kw.get("window", a[1] if len(a) > 1 else None)))
            return np.asarray(x, dtype=float) ** 2
        for name, fn in [("taper", taper), ("lowpass", mkfilter("lowpass")), ("highpass", mkfilter("highpass")),
                         ("bandpass", mkfilter("bandpass")), ("bandblock", mkfilter("bandblock")), ("smooth", smooth)]:
            self.saved[name] = getattr(m, name)
            setattr(m, name, fn)
        return self

    def __exit__(self, *a):
        for k, v in self.saved.items():
            setattr(self.m, k, v)


def gen_series(rng):
    n = rng.choice([3, 4, 5, 8, 13, 40])
    if rng.random() < 0.6:
        h = Fraction(1, rng.choice([1, 2, 4, 8])) * rng.choice([1, 2])
        t0 = Fraction(rng.randint(-8, 8), 2)
        t = [t0 + i * h for i in range(n)]
    else:
        t = [Fraction(rng.randint(-8, 8), 2)]
        for _ in range(n - 1):
            t.append(t[-1] + Fraction(rng.choice([1, 2, 3, 5]), rng.choice([2, 4, 8])))
    x = [Fraction(rng.randint(-64, 64), rng.choice([1, 2, 4])) for _ in range(n)]
    return t, x


BIG_T = 2 ** 20           # beyond this |t| the grid spacing of linspace is only accurate to a few ulp(|t|)


def gen_series_wide(rng):
    """gen_series plus the boundary classes: two samples only, data in other units (x 2^p, |p| up to 200: exact in floating
    point), time axis on a large offset (2^40, -2^40, 10^9: the dyadic sample times stay exact), constant data, integer-valued.
    Returns (t, x, p) where 2^p is the unit of the data."""
    t, x = gen_series(rng)
    k = rng.random()
    if k < 0.08:
        t, x = t[:2], x[:2]
    elif k < 0.14:
        x = [Fraction(rng.randint(-64, 64)) for _ in x]
        if rng.random() < 0.5:      # integer times too: the series can be given as integer arrays, windows as integers
            t0 = rng.randint(-4, 4)
            t = [Fraction(t0 + i) for i in range(len(t))]
    elif k < 0.17:
        x = [x[0]] * len(x)
    p = 0
    if rng.random() < 0.14:
        p = rng.choice([200, -200, 60, -60])
        x = [v * Fraction(2) ** p for v in x]
    if rng.random() < 0.12:
        off = rng.choice([2 ** 40, -2 ** 40, 10 ** 9, 2 ** 30])
        t = [u + off for u in t]
    return t, x, p


def xscale(x):
    """magnitude of the data (1 for ordinary series): absolute tolerances are relative to it when the data are in another unit
    (smaller than 1, or beyond 2^20 where differences of neighbouring samples cancel to rounding errors of that size)"""
    m = max([abs(float(v)) for v in x] or [0.0])
    return m if (m < 1.0 or m > BIG_T) else 1.0


def gen_request(rng, t, p_out=0.4):
    """requested time array: points of the span (dyadic fractions of it, stored times, the two ends), sorted or shuffled, possibly
    with repeats; with probability p_out one or two values outside the span (far, 1/8, or one ulp) at any position"""
    lo, hi = t[0], t[-1]
    m = rng.choice([1, 2, 3, 5, 8])
    pts = [rng.choice([lo + (hi - lo) * Fraction(rng.randint(0, 16), 16), t[rng.randrange(len(t))], lo, hi]) for _ in range(m)]
    if rng.random() < 0.5:
        pts.sort()
    if rng.random() < p_out:
        for _ in range(rng.choice([1, 1, 2])):
            out = rng.choice([hi + 1, lo - 1, hi + Fraction(1, 8), lo - Fraction(1, 8), hi + 100,
                              Fraction(float(np.nextafter(float(hi), np.inf))), Fraction(float(np.nextafter(float(lo), -np.inf)))])
            pts.insert(rng.randint(0, len(pts)), out)
    return pts


REF0 = datetime(2020, 1, 1, 12, 0, 0)

GETKW_QUERIES = ("min", "max", "mean", "std", "skew", "kurtosis", "rfc", "psd", "stats")
QUERIES = ("get", "get_edit", "minima", "maxima", "interpolate", "resample", "filter", "copy", "props", "bad", "entry") + GETKW_QUERIES
MUTATORS = ("set_dtg_ref", "edit_x", "set_x", "scale_x", "shift_t", "move_t", "move_end", "scale_t", "assign_x", "modify", "modify_step",
            "modify_req")
# operations the implementation must refuse; a refused operation changes nothing and is followed by valid ones
BAD_OPS = ("req_outside", "req_outside_list", "nd_twin", "int_step", "zero_step", "neg_dt", "interp_outside", "resample_t_outside",
           "modify_outside", "modify_nd_twin", "twin3", "step_empty_window", "smooth_too_long", "bad_filter")
# other public entry points that hand their options to get()
ENTRIES = ("geta", "getda", "to_dataframe", "trace", "filter_twin", "positional")


def uniform_pow2(t):
    """spacing h if the (exact) times are equidistant with a power-of-two spacing (interpolation at k*h/2 is then exact), else None"""
    if len(t) < 3:
        return None
    h = t[1] - t[0]
    if any(t[i + 1] - t[i] != h for i in range(len(t) - 1)):
        return None
    if h <= 0 or (h.numerator != 1 and h.denominator != 1) or (h.numerator & (h.numerator - 1)) or (h.denominator & (h.denominator - 1)):
        return None
    return h


def gen_getkw(rng, lo, hi, p_plain=0.0):
    """keyword arguments of one get() call as a JSON-able dict (real stage functions); {} = no option at all"""
    kw = {}
    if rng.random() < p_plain:
        return kw
    k = rng.random()
    if k < 0.25:
        kw["twin"] = [lo + (hi - lo) * rng.randint(0, 4) / 8.0, hi - (hi - lo) * rng.randint(0, 3) / 8.0]
    elif k < 0.4:
        kw["resample"] = (hi - lo) / rng.choice([1, 2, 4, 7])
    elif k < 0.5:
        kw["resample"] = [lo + (hi - lo) * rng.randint(0, 8) / 8.0 for _ in range(rng.randint(1, 4))]
    if rng.random() < 0.6:
        kw["taperfrac"] = rng.choice([0.1, 0.25, 0.5])
    if rng.random() < 0.3:
        kw["filterargs"] = rng.choice([["lp", 0.1], ["hp", 0.05], ["bp", 0.05, 0.2], ["bs", 0.05, 0.2], ["tp", 1.0]])
    if rng.random() < 0.25:
        kw["window_len"] = rng.choice([3, 3, 1, 5])
    return kw


def gen_step(rng, t, x, has_ref, allow_dtg=True):
    """one step of a history on the series currently stored as (t, x) (Fractions): a query (must not change anything), an
    operation that must be refused (changes nothing either) or an in-place change of the stored arrays, as a JSON-able dict"""
    lo, hi = float(t[0]), float(t[-1])
    n = len(t)
    k = rng.random()
    if k < 0.25:
        return {"op": "get", "kw": gen_getkw(rng, lo, hi)}
    if k < 0.65:
        op = rng.choice(["minima", "minima", "maxima", "maxima", "get_edit", "interpolate", "resample", "filter", "copy", "props",
                         "bad", "bad", "bad", "entry", "entry"] + list(GETKW_QUERIES))
        if op == "bad":
            return {"op": op, "what": rng.choice(BAD_OPS)}
        if op == "entry":
            return {"op": op, "via": rng.choice(ENTRIES), "kw": gen_getkw(rng, lo, hi, p_plain=0.2)}
        if op in ("minima", "maxima"):
            return {"op": op, "kw": gen_getkw(rng, lo, hi, p_plain=0.5), "local": rng.random() < 0.4, "rettime": rng.random() < 0.4}
        if op == "get_edit":
            return {"op": op, "kw": gen_getkw(rng, lo, hi, p_plain=0.4)}
        if op in GETKW_QUERIES:
            return {"op": op, "kw": gen_getkw(rng, lo, hi, p_plain=0.5)}
        if op == "interpolate":
            return {"op": op, "at": [lo + (hi - lo) * rng.randint(0, 16) / 16.0 for _ in range(rng.randint(1, 4))]}
        if op == "resample":
            if rng.random() < 0.5:
                return {"op": op, "dt": (hi - lo) / rng.choice([1, 2, 4, 8])}
            return {"op": op, "t": [lo + (hi - lo) * rng.randint(0, 16) / 16.0 for _ in range(rng.randint(1, 4))]}
        if op == "filter":
            return {"op": op, "args": rng.choice([["lp", 0.1], ["hp", 0.05], ["bp", [0.05, 0.2]], ["bs", [0.05, 0.2]], ["tp", 1.0]])}
        return {"op": op}
    h = uniform_pow2(t)
    ok = [m for m in MUTATORS if not (m == "set_dtg_ref" and not allow_dtg) and not (m in ("move_t", "modify") and n < 3)
          and not (m in ("modify_step", "modify_req") and h is None)]
    op = rng.choice(ok)
    if op == "modify_step":
        # the stored series becomes its own resampling: on a power-of-two grid the interpolated values are exact
        ds = [h / 2, h] + ([2 * h] if (n - 1) % 2 == 0 and n >= 5 else [])
        return {"op": op, "d": str(rng.choice(ds)), "spell": rng.choice(["float", "float", "np.float64", "np.float32"])}
    if op == "modify_req":
        pool = sorted(set(t) | set(u + h / 2 for u in t[:-1]))
        m = rng.randint(3, min(len(pool), 9))
        at = sorted(rng.sample(pool, m))
        return {"op": op, "at": [str(u) for u in at], "spell": rng.choice(["ndarray", "ndarray", "list", "view"])}
    if op == "set_dtg_ref":
        return {"op": op, "shift": rng.choice([None, None, "15/2", "-9/4", "1/2", "30", "-1/8"])}
    if op == "edit_x":
        return {"op": op, "i": rng.randrange(n), "add": str(Fraction(rng.choice([-100, -3, 1, 7, 100]), rng.choice([1, 2])))}
    if op == "set_x":
        return {"op": op, "i": rng.randrange(n), "value": str(Fraction(rng.randint(-64, 64), rng.choice([1, 2, 4])))}
    if op == "scale_x":
        return {"op": op, "by": rng.choice(["-1", "2", "1/2", "0"])}
    if op == "shift_t":
        return {"op": op, "by": str(Fraction(rng.choice(["1/2", "-3/4", "10", "-8"])) * tunit(t))}
    if op == "move_end":
        # the first or last stored time is edited in place: span, duration and average step change, the number of samples does not
        if rng.random() < 0.5:
            return {"op": op, "i": 0, "value": str(rng.choice([t[0] - Fraction(rng.randint(1, 6), 4) * tunit(t), t[0] + (t[1] - t[0]) / 2]))}
        return {"op": op, "i": n - 1, "value": str(rng.choice([t[-1] + Fraction(rng.randint(1, 6), 4) * tunit(t), t[-1] - (t[-1] - t[-2]) / 2]))}
    if op == "scale_t":
        return {"op": op, "by": rng.choice(["2", "1/2", "4"])}
    if op == "move_t":
        i = rng.randrange(1, n - 1)
        return {"op": op, "i": i, "value": str(t[i - 1] + Fraction(rng.choice([1, 2, 3]), 4) * (t[i + 1] - t[i - 1]))}
    if op == "assign_x":
        return {"op": op, "values": [str(Fraction(rng.randint(-64, 64), rng.choice([1, 2, 4]))) for _ in range(n)]}
    # modify(twin): at least three samples are kept
    i = rng.randrange(0, n - 2)
    j = rng.randrange(i + 2, n)
    return {"op": "modify", "twin": [str(t[i] - Fraction(rng.randint(0, 1), 16) * tunit(t)), str(t[j] + Fraction(rng.randint(0, 1), 16) * tunit(t))]}


def tunit(t):
    """unit of the time axis: 1 for ordinary series, the power of two below the span for series in a much finer unit (the constants
    of time-shifting steps are given in that unit, so that sample times stay exactly representable)"""
    span = t[-1] - t[0]
    if span >= Fraction(1, 64) or span <= 0:
        return Fraction(1)
    u = Fraction(1)
    while u > span:
        u /= 2
    return u


def step_op(h):
    return h.get("op", "get")           # histories written before the other operations existed: plain get() keyword dicts


def model_step(t, x, has_ref, h, xmul=1):
    """the series stored after step h, in exact arithmetic (queries and refused operations change nothing); `xmul` is the unit
    of the data (a power of two): the data constants of a step are given in that unit"""
    op = step_op(h)
    t, x = list(t), list(x)
    if op == "set_dtg_ref":
        if h.get("shift") is None:
            if has_ref:
                t = [u - t[0] for u in t]           # the reference is moved to the first sample
        elif has_ref:
            t = [u + Fraction(h["shift"]) for u in t]
        else:
            has_ref = True                           # no earlier reference: nothing to shift
    elif op == "edit_x":
        x[h["i"]] += Fraction(h["add"]) * xmul
    elif op == "set_x":
        x[h["i"]] = Fraction(h["value"]) * xmul
    elif op == "scale_x":
        x = [v * Fraction(h["by"]) for v in x]
    elif op == "shift_t":
        t = [u + Fraction(h["by"]) for u in t]
    elif op in ("move_t", "move_end"):
        t[h["i"]] = Fraction(h["value"])
    elif op == "scale_t":
        t = [u * Fraction(h["by"]) for u in t]
    elif op == "assign_x":
        x = [Fraction(v) * xmul for v in h["values"]]
    elif op == "modify":
        a, b = [Fraction(v) for v in h["twin"]]
        keep = [(u, v) for u, v in zip(t, x) if a <= u <= b]
        t, x = [u for u, _ in keep], [v for _, v in keep]
    elif op == "modify_step":
        d = Fraction(h["d"])
        k = (t[-1] - t[0]) / d
        assert k.denominator == 1
        g = [t[0] + i * d for i in range(int(k) + 1)]
        t, x = g, [exact_interp(t, x, q) for q in g]
    elif op == "modify_req":
        g = [Fraction(v) for v in h["at"]]
        t, x = g, [exact_interp(t, x, q) for q in g]
    return t, x, has_ref


def gen_history(rng, t, x, has_ref, allow_dtg=True, xmul=1):
    """0-4 steps; returns (history, series stored afterwards)"""
    h = []
    for _ in range(rng.choice([0, 1, 1, 2, 2, 3, 4])):
        step = gen_step(rng, t, x, has_ref, allow_dtg)
        h.append(step)
        t, x, has_ref = model_step(t, x, has_ref, step, xmul)
    return h, t, x


def kw_of(h):
    kw = dict(h)
    if "twin" in kw:
        kw["twin"] = tuple(kw["twin"])
    if "filterargs" in kw:
        kw["filterargs"] = tuple(kw["filterargs"])
    if isinstance(kw.get("resample"), list):
        kw["resample"] = np.array(kw["resample"], dtype=float)
    return kw


def spell_array(vals, how):
    """the same requested times in another container: ndarray / list / strided view of a larger array / integer array"""
    vals = [float(v) for v in vals]
    if how == "list":
        return list(vals)
    if how == "view":
        big = np.zeros(2 * len(vals) + 1)
        big[1::2] = vals
        return big[1::2]
    if how == "int" and all(v == int(v) for v in vals):
        return np.array([int(v) for v in vals])
    return np.array(vals, dtype=float)


def spell_step(d, how):
    d = float(d)
    if how == "np.float64":
        return np.float64(d)
    if how == "np.float32":
        return np.float32(d)
    if how == "int" and d == int(d):
        return int(d)
    return d


def spell_twin(a, b, how):
    """the same window as tuple / list / ndarray / numpy scalars / integers"""
    a, b = float(a), float(b)
    if how == "list":
        return [a, b]
    if how == "ndarray":
        return np.array([a, b])
    if how == "npscalar":
        return (np.float64(a), np.float64(b))
    if how == "int" and all(np.isfinite(v) and v == int(v) for v in (a, b)):
        return (int(a), int(b))
    return (a, b)


def do_bad(ts, what):
    """an operation that has to be refused (window + ndarray, times outside the span, a step that is not a positive float, ...)"""
    lo, hi = float(ts.t[0]), float(ts.t[-1])
    if what == "req_outside":
        ts.get(resample=np.array([lo, hi + 1.0, 0.5 * (lo + hi)]))
    elif what == "req_outside_list":
        ts.get(resample=[0.5 * (lo + hi), lo - 0.125])
    elif what == "nd_twin":
        ts.get(twin=(lo, hi), resample=np.array([lo, hi]))
    elif what == "int_step":
        ts.get(resample=1)
    elif what == "zero_step":
        ts.get(resample=0.0)
    elif what == "neg_dt":
        ts.resample(dt=-1.0)
    elif what == "interp_outside":
        ts.interpolate(np.array([lo, hi + 0.125]))
    elif what == "resample_t_outside":
        ts.resample(t=np.array([lo - 1.0, hi]))
    elif what == "modify_outside":
        ts.modify(resample=np.array([lo, 0.5 * (lo + hi), hi + 0.125]))
    elif what == "modify_nd_twin":
        ts.modify(twin=(lo, hi), resample=np.array([lo, hi]))
    elif what == "twin3":
        ts.get(twin=(lo, hi, hi))
    elif what == "step_empty_window":
        ts.get(twin=(hi + 1.0, hi + 2.0), resample=0.5)
    elif what == "smooth_too_long":
        ts.get(window_len=len(ts.t) + 2)
    elif what == "bad_filter":
        ts.get(filterargs=("xx", 0.1))


def via_entry(ts, via, kw):
    """get(**kw) through another public entry point; returns (time, data)"""
    if via == "positional":
        return ts.get(kw.get("twin"), kw.get("resample"), kw.get("window_len"), kw.get("filterargs"), kw.get("window", "rectangular"),
                      kw.get("taperfrac"))
    if via == "filter_twin":
        fa = kw.get("filterargs") or ("tp", 0.0)
        return ts.filter(fa[0], fa[1] if len(fa) == 2 else tuple(fa[1:]), twin=kw.get("twin"), taperfrac=kw.get("taperfrac"))
    if via == "trace":
        from qats.app import funcs
        r = funcs.calculate_trace({"s": ts}, kw.get("twin"), kw.get("filterargs"))["s"]
        return r["t"], r["x"]
    from qats import TsDB
    db = TsDB()
    db.add(ts)
    if via == "geta":
        return db.geta(ts.name, **kw)
    if via == "getda":
        (tt, xx), = db.getda(names=ts.name, **kw).values()
        return tt, xx
    if via == "to_dataframe":
        df = db.to_dataframe(names=ts.name, **kw)
        return np.asarray(df.index, dtype=float), np.asarray(df.iloc[:, 0], dtype=float)
    return ts.get(**kw)


def apply_step(ts, h, xmul=1):
    """perform one step of a history on the real object. A refused step (e.g. a filter on a very short series, set_dtg_ref()
    without a reference) is still part of the history."""
    op = step_op(h)
    xmul = float(xmul)
    try:
        if op == "bad":
            do_bad(ts, h["what"])
        elif op == "entry":
            via_entry(ts, h["via"], kw_of(h.get("kw", {})))
        elif op == "modify_step":
            ts.modify(resample=spell_step(Fraction(h["d"]), h.get("spell", "float")))
        elif op == "modify_req":
            ts.modify(resample=spell_array([Fraction(v) for v in h["at"]], h.get("spell", "ndarray")))
        elif op == "get":
            ts.get(**kw_of(h["kw"] if "op" in h else h))
        elif op == "get_edit":
            # the caller post-processes what it got back (zero-based time axis, scaled data): its own arrays, not the series
            tt, xx = ts.get(**kw_of(h["kw"]))
            if isinstance(xx, np.ndarray) and len(xx):
                xx *= 0.0
                xx += 12345.0
            if isinstance(tt, np.ndarray) and len(tt):
                tt -= tt[0] + 1.0
        elif op in ("minima", "maxima"):
            getattr(ts, op)(local=h.get("local", False), rettime=h.get("rettime", False), **kw_of(h.get("kw", {})))
        elif op in GETKW_QUERIES:
            getattr(ts, op)(**kw_of(h.get("kw", {})))
        elif op == "interpolate":
            ts.interpolate(np.array(h["at"], dtype=float))
        elif op == "resample":
            if "t" in h:
                ts.resample(t=np.array(h["t"], dtype=float))
            else:
                ts.resample(dt=float(h["dt"]))
        elif op == "filter":
            ftype, freq = h["args"]
            ts.filter(ftype, tuple(freq) if isinstance(freq, list) else freq)
        elif op == "copy":
            ts.copy()
        elif op == "props":
            for name in ("dt", "is_constant_dt", "start", "end", "duration", "n", "dtg_start", "dtg_end", "dtg_time",
                         "average_frequency", "average_period", "fullname"):
                try:
                    getattr(ts, name)
                except Exception:
                    pass
            repr(ts)
            list(zip(range(3), ts))
        elif op == "set_dtg_ref":
            if h.get("shift") is None:
                ts.set_dtg_ref()
            else:
                cur = ts.dtg_ref
                ts.set_dtg_ref(REF0 if cur is None else cur - timedelta(seconds=float(Fraction(h["shift"]))))
        elif op == "edit_x":
            ts.x[h["i"]] += float(Fraction(h["add"])) * xmul
        elif op == "set_x":
            ts.x[h["i"]] = float(Fraction(h["value"])) * xmul
        elif op == "scale_x":
            ts.x *= float(Fraction(h["by"]))
        elif op == "shift_t":
            tt = ts.t
            tt += float(Fraction(h["by"]))
        elif op in ("move_t", "move_end"):
            ts.t[h["i"]] = float(Fraction(h["value"]))
        elif op == "scale_t":
            tt = ts.t
            tt *= float(Fraction(h["by"]))
        elif op == "assign_x":
            ts.x = np.array([float(Fraction(v)) * xmul for v in h["values"]])
        elif op == "modify":
            ts.modify(twin=tuple(float(Fraction(v)) for v in h["twin"]))
    except Exception:
        pass


SERIES_SPELLINGS = ("float", "int", "view", "f32", "datetime", "shared")
_SHARED = {}


def make_ts(t, x, case, name="s"):
    """the series under test, built from the exact samples in the spelling named by case["series"]: float arrays, integer arrays
    (integral samples only), strided views of larger arrays, single-precision data (when exactly representable), time given as
    datetime objects (micro-second exact times only), or two objects built from the very same source arrays ("shared")"""
    from qats import TimeSeries
    tf, xf = np.array([float(v) for v in t]), np.array([float(v) for v in x])
    how = case.get("series", "float")
    ref = REF0 if case.get("dtg_ref") else None
    if how == "int" and all(v == int(v) for v in tf) and all(v == int(v) and abs(v) < 2 ** 62 for v in xf):
        return TimeSeries(name, np.array([int(v) for v in tf]), np.array([int(v) for v in xf]), dtg_ref=ref)
    if how == "view":
        bt, bx = np.zeros(2 * len(tf) + 1), np.zeros(2 * len(xf) + 1)
        bt[1::2], bx[1::2] = tf, xf
        return TimeSeries(name, bt[1::2], bx[1::2], dtg_ref=ref)
    if how == "f32" and all(float(np.float32(v)) == v for v in xf):
        return TimeSeries(name, tf, xf.astype(np.float32), dtg_ref=ref)
    if how == "datetime" and ref is not None and all((u * 10 ** 6).denominator == 1 and abs(u) < 10 ** 6 for u in t):
        return TimeSeries(name, np.array([REF0 + timedelta(microseconds=int(u * 10 ** 6)) for u in t]), xf, dtg_ref=REF0)
    if how == "shared":
        # a sibling object is built from the same source arrays first and then changed: the object under test is independent
        other = TimeSeries("other", tf, xf, dtg_ref=ref)
        obj = TimeSeries(name, tf, xf, dtg_ref=ref)
        try:
            other.x *= 3.0
            other.t[:] = other.t + 1000.0
            other.modify(twin=(float(other.t[0]), float(other.t[1])))
        except Exception:
            pass
        _SHARED[id(obj)] = other        # kept alive
        if len(_SHARED) > 64:
            _SHARED.clear()
        return obj
    return TimeSeries(name, tf, xf, dtg_ref=ref)


def describe(hist):
    """the suffix of an oracle text that says after what kind of history the clause was evaluated"""
    ops = [step_op(h) for h in hist or []]
    if not ops:
        return ""
    q = sorted(set(o for o in ops if o not in MUTATORS))
    m = sorted(set(o for o in ops if o in MUTATORS))
    parts = []
    if q:
        parts.append("earlier queries on the same object: %s" % ", ".join(q))
    if m:
        parts.append("in-place changes of the stored arrays, which are then the reference: %s" % ", ".join(m))
    return " (also after " + "; ".join(parts) + ")"


def attempt(call):
    """the result of a call on the implementation, or the name of the exception it raised (a crash is an observation)"""
    try:
        with np.errstate(all="ignore"):
            return call()
    except Exception as e:
        return type(e).__name__


def head(got):
    if isinstance(got, str):
        return got
    try:
        return [np.asarray(got[0], dtype=float).ravel().tolist()[:5], np.asarray(got[1], dtype=float).ravel().tolist()[:5]]
    except Exception as e:
        return "unreadable result (%s)" % type(e).__name__


def same_arrays(got, tf, xf, xtol=0.0):
    """got = (time, data) equals the expected arrays: time exactly, data exactly (xtol = 0) or to xtol relative to the data's scale"""
    if isinstance(got, str):
        return False
    try:
        gt, gx = np.asarray(got[0], dtype=float), np.asarray(got[1], dtype=float)
    except Exception:
        return False
    if gt.shape != tf.shape or gx.shape != xf.shape or not np.array_equal(gt, tf):
        return False
    if xtol == 0.0:
        return bool(np.array_equal(gx, xf))
    return bool(np.allclose(gx, xf, rtol=xtol, atol=xtol * xscale(xf)))


def noop_forms(tf):
    """options that are given but, by their value, ask for nothing"""
    lo, hi = float(tf[0]), float(tf[-1])
    return [("taperfrac=0.0", dict(taperfrac=0.0)), ("window_len=1", dict(window_len=1)),
            ("taperfrac=0, window_len=0", dict(taperfrac=0, window_len=0)),
            ("twin=(first, last)", dict(twin=(lo, hi))), ("twin=(-inf, inf)", dict(twin=(-np.inf, np.inf))),
            ("twin=[first - 1, last + 1e12]", dict(twin=[lo - 1.0, hi + 1e12])),
            ("every option None", dict(twin=None, resample=None, window_len=None, filterargs=None, taperfrac=None))]


def stored_clauses(ts, t, x, sfx):
    """the clauses that only need the stored arrays (t, x as Fractions): plain get(), options that ask for nothing, stored values
    reproduced at stored times, no extrapolation just outside the stored span. Returns [(oracle, expected, observed)]."""
    tf, xf = np.array([float(v) for v in t]), np.array([float(v) for v in x])
    atol = 1e-12 * xscale(x)
    bad = []
    # the derived quantities are read at every checkpoint (a value remembered here must not survive a later in-place change)
    attempt(lambda: (ts.dt, ts.is_constant_dt, ts.duration, ts.start, ts.end, ts.n, ts.average_frequency, ts.fullname))
    got = attempt(lambda: ts.get())
    if isinstance(got, str) or not (np.array_equal(got[0], tf) and np.array_equal(got[1], xf)):
        bad.append(("without options the stored arrays are returned" + sfx, [tf.tolist()[:5], xf.tolist()[:5]], head(got)))
    for label, kw in noop_forms(tf):
        got = attempt(lambda: ts.get(**kw))
        if not same_arrays(got, tf, xf, 1e-12):
            bad.append(("options that ask for nothing (no taper, a one-sample smoothing window, a window containing every sample) "
                        "return the stored samples" + sfx + " — %s" % label, [tf.tolist()[:5], xf.tolist()[:5]], head(got)))
            break
    vals = attempt(lambda: ts.interpolate(tf.copy()))
    if isinstance(vals, str) or len(vals) != len(xf) or not np.allclose(vals, xf, rtol=1e-12, atol=atol):
        bad.append(("interpolation reproduces stored values at stored times" + sfx, xf.tolist()[:5],
                    vals if isinstance(vals, str) else np.asarray(vals).tolist()[:5]))
    got = attempt(lambda: ts.get(resample=tf.copy()))
    if isinstance(got, str) or len(got[1]) != len(xf) or not np.array_equal(got[0], tf) or \
            not np.allclose(got[1], xf, rtol=1e-12, atol=atol):
        bad.append(("resampling to the stored times reproduces the stored values" + sfx, xf.tolist()[:5],
                    got if isinstance(got, str) else np.asarray(got[1]).tolist()[:5]))
    for q in (t[0] - Fraction(1, 8), t[-1] + Fraction(1, 8)):
        got = attempt(lambda: float(ts.interpolate(np.array([float(q)]))[0]))
        if got != "ValueError":
            bad.append(("outside the stored span interpolation raises instead of extrapolating" + sfx,
                        "ValueError at %s (stored span %s .. %s)" % (q, t[0], t[-1]), got))
    return bad


def exact_interp(t, x, q):
    """linear interpolation of the stored samples in exact arithmetic; None outside the stored span"""
    if q < t[0] or q > t[-1]:
        return None
    for i in range(len(t) - 1):
        if t[i] <= q <= t[i + 1]:
            return x[i] + (q - t[i]) / (t[i + 1] - t[i]) * (x[i + 1] - x[i])
    return x[0]


AFTER = " (also after earlier queries on the same object)"
WIN_VIAS = ("get", "get", "positional", "geta", "getda", "to_dataframe", "trace", "max", "min", "mean", "modify")
TWIN_SPELLINGS = ("tuple", "list", "ndarray", "npscalar", "int")
STEP_SPELLINGS = ("float", "np.float64", "np.float32", "int")


def bound(s):
    return float(s) if s in ("inf", "-inf") else Fraction(s)


def window_clause(ts, t, x, w, sfx, rebuild):
    """one window {a, b, spell, via}: exactly the samples of the closed window, through the named entry point and spelling"""
    a, b = bound(w["a"]), bound(w["b"])
    keep = [(float(u), float(v)) for u, v in zip(t, x) if a <= u <= b]
    tw = spell_twin(a, b, w.get("spell", "tuple"))
    via = w.get("via", "get")
    label = " — %s, twin as %s" % (via, w.get("spell", "tuple"))
    text = "a window returns exactly the samples in the closed window, unchanged and in order" + sfx
    if via in ("max", "min", "mean"):
        if not keep:
            return []
        vals = [v for _, v in keep]
        exp = {"max": max(vals), "min": min(vals), "mean": float(sum(Fraction(v) for v in vals) / len(vals))}[via]
        got = attempt(lambda: float(getattr(ts, via)(twin=tw)))
        if isinstance(got, str) or abs(got - exp) > (1e-12 * max(abs(v) for v in vals) if via == "mean" else 0.0):
            return [("the %s over a window is the %s of exactly the samples in the closed window" % (via, via) + sfx + label, exp, got)]
        return []
    if via == "modify":
        if rebuild is None or len(keep) < 1:
            return []
        ts2 = rebuild()
        r = attempt(lambda: ts2.modify(twin=tw))
        got = r if isinstance(r, str) else attempt(lambda: (ts2.t, ts2.x))
    elif via == "to_dataframe" and not keep:
        return []
    else:
        got = attempt(lambda: via_entry(ts, via, dict(twin=tw)))
    if isinstance(got, str) or not same_arrays(got, np.array([u for u, _ in keep]), np.array([v for _, v in keep])):
        if via == "modify":
            text = "modify(**kwargs) stores what get(**kwargs) returns: exactly the samples in the closed window" + sfx
        return [(text + label, keep[:5], pairs(got))]
    return []


def pairs(got):
    if isinstance(got, str):
        return got
    try:
        return list(zip(np.asarray(got[0], dtype=float).tolist(), np.asarray(got[1], dtype=float).tolist()))[:5]
    except Exception as e:
        return "unreadable result (%s)" % type(e).__name__


def option_clauses(ts, t, x, case, sfx, rebuild):
    """the clauses that need an option (window / interpolation points / requested array / step) on object `ts` whose stored series
    is (t, x) in exact arithmetic. Returns [(oracle, relevant case keys, expected, observed, None)]."""
    tf, xf = np.array([float(v) for v in t]), np.array([float(v) for v in x])
    xs = xscale(x)
    bad = []
    if "twin" in case:
        a, b = [Fraction(v) for v in case["twin"]]
        got = attempt(lambda: ts.get(twin=(float(a), float(b))))
        keep = [(float(u), float(v)) for u, v in zip(t, x) if a <= u <= b]
        if isinstance(got, str) or list(zip(np.asarray(got[0]).tolist(), np.asarray(got[1]).tolist())) != keep:
            bad.append(("a window returns exactly the samples in the closed window, unchanged and in order" + sfx, ["twin"],
                        keep[:5], pairs(got), None))
        elif rebuild is not None:
            # modify == get (second object with the same history)
            tw, xw = got
            ts2 = rebuild()
            r = attempt(lambda: ts2.modify(twin=(float(a), float(b))))
            if isinstance(r, str) or not (np.array_equal(ts2.t, tw) and np.array_equal(ts2.x, xw)):
                bad.append(("modify(**kwargs) stores what get(**kwargs) returns", ["twin"], [tw.tolist()[:5], xw.tolist()[:5]],
                            r if isinstance(r, str) else [np.asarray(ts2.t).tolist()[:5], np.asarray(ts2.x).tolist()[:5]], None))
    # windows in other spellings, on the boundary, through the other entry points
    for w in case.get("wins", []):
        for oracle, exp, obs in window_clause(ts, t, x, w, sfx, rebuild):
            bad.append((oracle, ["wins"], exp, obs, None))
    # interpolation is linear between the nodes, raises outside
    for qs in case.get("qs", []):
        q = Fraction(qs)
        exp = exact_interp(t, x, q)
        got = attempt(lambda: float(ts.interpolate(np.array([float(q)]))[0]))
        if exp is None:
            if got != "ValueError":
                bad.append(("outside the stored span interpolation raises instead of extrapolating" + sfx, ["qs"], "ValueError", got, None))
        elif isinstance(got, str) or abs(got - float(exp)) > 1e-11 * max(xs, abs(float(exp))):
            bad.append(("between two stored samples the value is their linear interpolation" + sfx, ["qs"], float(exp), got, None))
        if exp is not None:
            # the same point as a scalar, in a list, in a tuple
            for label, call in (("interpolate(float)", lambda: float(ts.interpolate(float(q)))),
                                ("interpolate(list)", lambda: float(ts.interpolate([float(q)])[0])),
                                ("interpolate(tuple)", lambda: float(ts.interpolate((float(q),))[0]))):
                got = attempt(call)
                if isinstance(got, str) or abs(got - float(exp)) > 1e-11 * max(xs, abs(float(exp))):
                    bad.append(("between two stored samples the value is their linear interpolation" + sfx + " — %s" % label, ["qs"],
                                float(exp), got, None))
                    break
    # requested time arrays (sorted or not, ndarray / list / view / integers), through interpolate(), get(resample=...) and the
    # other entry points; the same ndarray object is handed to several calls
    if "req" in case:
        req = [Fraction(v) for v in case["req"]]
        reqf = [float(v) for v in req]
        exp = [exact_interp(t, x, q) for q in req]
        outside = [str(q) for q, e in zip(req, exp) if e is None]
        shared = np.array(reqf)
        forms = [("interpolate(ndarray)", lambda: (reqf, ts.interpolate(np.array(reqf)))),
                 ("get(resample=ndarray)", lambda: ts.get(resample=np.array(reqf))),
                 ("get(resample=list)", lambda: ts.get(resample=list(reqf))),
                 ("get(resample=the same ndarray again)", lambda: ts.get(resample=shared)),
                 ("get(None, ndarray) positional", lambda: ts.get(None, shared)),
                 ("get(resample=strided view)", lambda: ts.get(resample=spell_array(reqf, "view"))),
                 ("interpolate(list)", lambda: (reqf, ts.interpolate(list(reqf)))),
                 ("TsDB.geta(resample=ndarray)", lambda: via_entry(ts, "geta", dict(resample=shared))),
                 ("TsDB.getda(resample=list)", lambda: via_entry(ts, "getda", dict(resample=list(reqf)))),
                 ("resample(t=ndarray)", lambda: (reqf, ts.resample(t=shared))),
                 ("get(resample=the same ndarray a third time)", lambda: ts.get(resample=shared))]
        if all(v == int(v) for v in reqf):
            forms.append(("get(resample=integer ndarray)", lambda: ts.get(resample=spell_array(reqf, "int"))))
        for label, call in forms:
            try:
                with np.errstate(all="ignore"):
                    tt, xx = call()
                got = [np.asarray(tt, dtype=float).tolist(), np.asarray(xx, dtype=float).tolist()]
            except Exception as e:
                got = type(e).__name__
            if outside:
                if not isinstance(got, str):
                    bad.append(("resampling to a given array raises instead of extrapolating when a requested time (at any position "
                                "of the array) is outside the stored span" + sfx + " — %s" % label, ["req"],
                                "an exception (outside: %s)" % ", ".join(outside[:3]), got[1][:8], None))
                continue
            expf = [float(e) for e in exp]
            if isinstance(got, str) or len(got[0]) != len(got[1]) or got[0] != reqf or len(got[1]) != len(expf) or \
                    not np.allclose(got[1], expf, rtol=1e-11, atol=1e-11 * xs):
                bad.append(("resampling to a given array returns the linear interpolation of the stored samples on exactly that grid"
                            + sfx + " — %s" % label, ["req"], [reqf[:8], expf[:8]],
                            got if isinstance(got, str) else [got[0][:8], got[1][:8]], None))
        if shared.tolist() != reqf:
            bad.append(("resampling to a given array returns the linear interpolation of the stored samples on exactly that grid"
                        + sfx + " — the caller's array after the calls", ["req"], reqf[:8], shared.tolist()[:8], None))
    # resample to a step: grid from first to last sample with the spacing closest to the request
    if "step" in case:
        how = case.get("step_spell", "float")
        dval = spell_step(Fraction(case["step"]), how)
        d = Fraction(float(dval))                   # the step as the implementation receives it (single precision rounds it)
        got = attempt(lambda: ts.get(resample=dval))
        ratio = (t[-1] - t[0]) / d
        lab = "" if how == "float" else " — step as %s" % how
        if isinstance(dval, int) and got == "TypeError":
            pass                                    # an integer step is refused as documented (float expected)
        elif isinstance(got, str):
            bad.append(("resampling to a step gives an equidistant grid from the first to the last sample whose spacing is the one closest "
                        "to the request" + sfx + lab, ["step", "step_spell"], "k=%s" % round(ratio), got, None))
        else:
            tr, xr = np.asarray(got[0], dtype=float), np.asarray(got[1], dtype=float)
            k = len(tr) - 1
            big = max(abs(tf[0]), abs(tf[-1]))
            gtol = 8 * float(np.spacing(big)) if big > BIG_T else 0.0      # on a large offset the grid points are rounded to ulp(|t|)
            if len(t) >= 2 and k == 0 and ratio < Fraction(1, 2) + Fraction(1, 10 ** 9):
                ok = tr[0] == tf[0]                 # a step of more than twice the duration: the grid degenerates to the first sample
            else:
                ok = (k >= 1 and tr[0] == tf[0] and tr[-1] == tf[-1] and abs(Fraction(k) - ratio) <= Fraction(1, 2) + Fraction(1, 10 ** 9) and
                      np.allclose(np.diff(tr), float(t[-1] - t[0]) / k, rtol=1e-12, atol=gtol))
            if not ok:
                bad.append(("resampling to a step gives an equidistant grid from the first to the last sample whose spacing is the one "
                            "closest to the request" + sfx + lab, ["step", "step_spell"], "k=%s" % round(ratio), tr.tolist()[:6], None))
            elif len(tr) != len(xr):
                bad.append(("time and data have equal length", ["step", "step_spell"], len(tr), len(xr), None))
            else:
                # the grid values are the linear interpolation of the stored samples (grid points are floats: compare at the float grid)
                expv = [exact_interp(t, x, min(max(Fraction(float(u)), t[0]), t[-1])) for u in tr]
                if not np.allclose(xr, [float(e) for e in expv], rtol=1e-10, atol=1e-10 * xs):
                    bad.append(("resampling returns the linear interpolation of the stored samples on the requested grid" + sfx + lab,
                                ["step", "step_spell"], [float(e) for e in expv][:6], np.asarray(xr).tolist()[:6], None))
    # the queries above did not change what a plain query returns
    got = attempt(lambda: ts.get())
    if isinstance(got, str) or not (np.array_equal(got[0], tf) and np.array_equal(got[1], xf)):
        bad.append(("without options the stored arrays are returned" + AFTER, [k for k in ("twin", "wins", "qs", "req", "step", "step_spell") if k in case],
                    [tf.tolist()[:5], xf.tolist()[:5]], head(got), None))
    return bad


SIBLING = " — on a second series with the same time axis, the two objects being queried alternately with the same options"


def direct_clauses(t, x, case):
    """The property's clauses on the unpatched implementation for one series (Fractions) and one `case`: optional keys
    series / xpow / dtg_ref / history / checkpoints / sibling / twin / wins / qs / step / step_spell / req. The history is applied to
    one object; with `checkpoints` the stored-array clauses are evaluated on the fresh object and after every step (against the
    series as stored at that point); twin / wins / qs / req / step refer to the series stored after the whole history. With
    `sibling` a second series (same times, other data) is asked the same questions first.
    Returns (ts, t', x', [(oracle, relevant case keys, expected, observed, number of history steps needed or None = all)])
    where (t', x') is the series stored after the history, in exact arithmetic."""
    t_in, x_in = t, x
    xmul = Fraction(2) ** int(case.get("xpow", 0))
    ts = make_ts(t, x, case)
    hist = case.get("history") or []
    has_ref = bool(case.get("dtg_ref"))
    bad = []
    seen = set()
    if case.get("checkpoints", True) and hist:
        for oracle, exp, obs in stored_clauses(ts, t, x, ""):
            seen.add(oracle.split(" — ")[0])
            bad.append((oracle, [], exp, obs, 0))
    for k, h in enumerate(hist):
        apply_step(ts, h, xmul)
        t, x, has_ref = model_step(t, x, has_ref, h, xmul)
        if case.get("checkpoints", True) and k + 1 < len(hist):
            for oracle, exp, obs in stored_clauses(ts, t, x, describe(hist[:k + 1])):
                key = oracle.split(" (also")[0].split(" — ")[0]
                if key not in seen:       # the first step after which a clause fails
                    seen.add(key)
                    bad.append((oracle, [], exp, obs, k + 1))
    sfx = describe(hist)
    for oracle, exp, obs in stored_clauses(ts, t, x, sfx):
        if oracle.split(" (also")[0].split(" — ")[0] not in seen:
            bad.append((oracle, [], exp, obs, None))

    def rebuild():
        ts2 = make_ts(t_in, x_in, case)
        for h in hist:
            apply_step(ts2, h, xmul)
        return ts2

    if case.get("sibling"):
        xb = [xmul - v for v in x]
        plain = {k: v for k, v in case.items() if k not in ("history", "series")}
        tsb = make_ts(t, xb, plain, name="b")
        for oracle, keys, exp, obs, _ in option_clauses(tsb, t, xb, case, SIBLING, lambda: make_ts(t, xb, plain, name="b")):
            bad.append((oracle, keys + ["sibling"], exp, obs, None))
    bad += option_clauses(ts, t, x, case, sfx + (SIBLING if case.get("sibling") else ""), rebuild)
    if case.get("sibling"):
        for oracle, exp, obs in stored_clauses(tsb, t, xb, SIBLING):
            bad.append((oracle, ["sibling"], exp, obs, None))
    return ts, t, x, bad


def gen_opts(rng, t):
    o = dict(twin=None, resample=None, taper=False, filter=False, smooth=False)
    lo, hi = t[0], t[-1]
    k = rng.random()
    if k < 0.45:
        a = rng.choice([lo, t[len(t) // 3], lo - 1, lo + (hi - lo) * Fraction(rng.randint(0, 8), 8)])
        b = rng.choice([hi, t[-2], hi + 1, a + (hi - a) * Fraction(rng.randint(0, 8), 8)])
        o["twin"] = (a, b)
    elif k < 0.57:
        # on the boundary: a single instant, one ulp beside a sample, reversed limits
        u = t[rng.randrange(len(t))]
        up, dn = Fraction(float(np.nextafter(float(u), np.inf))), Fraction(float(np.nextafter(float(u), -np.inf)))
        o["twin"] = rng.choice([(u, u), (up, hi), (lo, dn), (dn, up), (u, lo - 1), (up, up), (lo, u)])
    k = rng.random()
    if k < 0.3:
        o["resample"] = ("step", (hi - lo) * Fraction(1, rng.choice([1, 2, 3, 4, 5, 7, 8])) * rng.choice([Fraction(1), Fraction(3, 2), Fraction(1, 2)]))
    elif k < 0.5 and o["twin"] is None:
        o["resample"] = ("arr", gen_request(rng, t, p_out=0.25))
    elif k < 0.55 and o["twin"] is not None:
        o["resample"] = ("arr", [lo, hi])   # array + window: refused
    o["taper"], o["filter"], o["smooth"] = (rng.random() < 0.4, rng.random() < 0.5, rng.random() < 0.3)
    return o


def opts_line(o):
    tw = "-" if o["twin"] is None else "%s,%s" % (rat(o["twin"][0]), rat(o["twin"][1]))
    if o["resample"] is None:
        rs = "-"
    elif o["resample"][0] == "step":
        rs = "step:" + rat(o["resample"][1])
    else:
        rs = "arr:" + ",".join(rat(v) for v in o["resample"][1])
    return "twin=%s res=%s taper=%d filter=%d smooth=%d" % (tw, rs, o["taper"], o["filter"], o["smooth"])


FARGS = {"lp": ("lp", 0.01), "hp": ("hp", 0.02), "bp": ("bp", 0.01, 0.02), "bs": ("bs", 0.01, 0.02)}
SPELL_DEFAULT = dict(twin="tuple", step="float", arr="ndarray", fargs="tuple", call="kw", series="float", taperfrac=0.1, window_len=3, window="rectangular")
SPELL_POOL = dict(twin=TWIN_SPELLINGS, step=("float", "np.float64", "np.float32"), arr=("ndarray", "list", "view", "int"),
                  fargs=("tuple", "list"), call=("kw", "positional", "filter()", "geta", "getda", "modify"),
                  series=("float", "int", "view", "f32"), taperfrac=(0.1, 0.25, 0.001, 0.5), window_len=(3, 5, 1, 2),
                  window=("rectangular", "hanning", "blackman"))
LIST_WIN = ("a requested time array together with a window is refused (the two cannot be combined), however the array is spelled "
            "(list like ndarray) — otherwise samples outside the window are returned")


def gen_spell(rng):
    """how the same request is written: only the entries that differ from the canonical spelling"""
    sp = {}
    for k in sorted(SPELL_POOL):
        if rng.random() < 0.4:
            v = rng.choice(SPELL_POOL[k])
            if v != SPELL_DEFAULT[k]:
                sp[k] = v
    return sp


def impl_get(ts, o, rng=None, ftype="lp", spell=None):
    sp = dict(SPELL_DEFAULT, **(spell or {}))
    kw = {}
    if o["twin"] is not None:
        kw["twin"] = spell_twin(o["twin"][0], o["twin"][1], sp["twin"])
    if o["resample"] is not None:
        kw["resample"] = spell_step(o["resample"][1], sp["step"]) if o["resample"][0] == "step" else spell_array(o["resample"][1], sp["arr"])
    if o["taper"]:
        kw["taperfrac"] = sp["taperfrac"]
    if o["filter"]:
        kw["filterargs"] = list(FARGS[ftype]) if sp["fargs"] == "list" else FARGS[ftype]
    if o["smooth"]:
        kw["window_len"] = sp["window_len"]
        if sp["window"] != "rectangular":
            kw["window"] = sp["window"]
    return kw


def canon_err(e):
    if isinstance(e, AssertionError):
        return "err assertion"
    if isinstance(e, IndexError):
        return "err index"
    if isinstance(e, ValueError):
        return "err bounds"
    return "err " + type(e).__name__


ORDER = {"taper": 0, "lowpass": 1, "highpass": 1, "bandpass": 1, "bandblock": 1, "smooth": 2}


def opts_json(o):
    j = dict(o)
    if o["twin"] is not None:
        j["twin"] = [str(a) for a in o["twin"]]
    if o["resample"] is not None:
        j["resample"] = [o["resample"][0], str(o["resample"][1]) if o["resample"][0] == "step" else [str(a) for a in o["resample"][1]]]
    return j


def opts_unjson(j):
    o = dict(j)
    if o.get("twin") is not None:
        o["twin"] = tuple(Fraction(a) for a in o["twin"])
    if o.get("resample") is not None:
        kind, v = o["resample"]
        o["resample"] = (kind, Fraction(v) if kind == "step" else [Fraction(a) for a in v])
    return o


def tagged_call(ts, o, kw, ftype, call, fresh):
    """issue the request in the named way; `fresh` builds a new object with the same samples (modify changes its object)"""
    if call == "filter()" and o["filter"] and o["resample"] is None and not o["smooth"]:
        fa = kw["filterargs"]
        freq = fa[1] if len(fa) == 2 else (list(fa[1:]) if isinstance(fa, list) else tuple(fa[1:]))
        return ts.filter(fa[0], freq, twin=kw.get("twin"), taperfrac=kw.get("taperfrac"))
    if call == "modify" and fresh is not None:
        obj = fresh()
        obj.modify(**kw)
        return obj.t, obj.x
    if call in ("positional", "geta", "getda"):
        return via_entry(ts, call, kw)
    return ts.get(**kw)


def tagged_clauses(t, x, o, ftype, spell=None, ts=None):
    """get(**options) with the tag stage functions, issued twice on the same object (a new one built from (t, x), or the given
    object `ts` that stores (t, x) after a history), then a plain get(). The request is written as `spell` says.
    Returns (first result, second result, [(oracle, expected, observed)])."""
    tf, xf = np.array([float(v) for v in t]), np.array([float(v) for v in x])
    sp = dict(SPELL_DEFAULT, **(spell or {}))
    fresh = None
    if ts is None:
        fresh = lambda: make_ts(t, x, {"series": sp["series"]})
        ts = fresh()
    res, allcalls = [], []
    with Tags() as tg:
        for _ in range(2):
            del tg.calls[:]
            try:
                with np.errstate(all="ignore"):
                    kw = impl_get(ts, o, ftype=ftype, spell=spell)      # new containers for every call
                    tt, xx = tagged_call(ts, o, kw, ftype, sp["call"], fresh)
                res.append(("ok", np.asarray(tt, dtype=float), np.asarray(xx, dtype=float)))
            except Exception as e:
                res.append((canon_err(e),))
            allcalls.append(list(tg.calls))
    bad = []
    got = attempt(lambda: ts.get())
    if isinstance(got, str) or not (np.array_equal(got[0], tf) and np.array_equal(got[1], xf)):
        bad.append(("without options the stored arrays are returned" + AFTER, [tf.tolist()[:5], xf.tolist()[:5]], head(got)))
    if o["resample"] is not None and o["resample"][0] == "arr" and o["twin"] is None:
        outside = [str(q) for q in o["resample"][1] if q < t[0] or q > t[-1]]
        if outside and res[0][0] == "ok":
            bad.append(("resampling to a given array raises instead of extrapolating when a requested time (at any position of the "
                        "array) is outside the stored span", "an exception (outside: %s)" % ", ".join(outside[:3]), res[0][2].tolist()[:8]))
    if o["resample"] is not None and o["resample"][0] == "arr" and o["twin"] is not None:
        for im in res:
            if im[0] == "ok":
                bad.append((LIST_WIN, "an exception, as for resample=ndarray", [im[1].tolist()[:6], im[2].tolist()[:6]]))
                break
    tw = [u for u in t if o["twin"] is None or o["twin"][0] <= u <= o["twin"][1]]
    for im, calls in zip(res, allcalls):
        if im[0] != "ok":
            continue
        if len(im[1]) != len(im[2]):
            bad.append(("time and data have equal length", len(im[1]), len(im[2])))
        if o["filter"] and o["resample"] is None and len(t) >= 2 and len(tw) >= 2:
            # the time axis the filter works on: the series' own (uniform sampling), else an equidistant grid over the retained span
            # whose spacing is the one closest to the average step of the series as it is stored now
            gaps = set(t[i + 1] - t[i] for i in range(len(t) - 1))
            if len(gaps) == 1:
                if not np.array_equal(im[1], np.array([float(u) for u in tw])):
                    bad.append(("a uniformly sampled series is filtered on its own time axis (no resampling was requested)",
                                [float(u) for u in tw][:6], im[1].tolist()[:6]))
            elif max(gaps) > min(gaps) * Fraction(11, 10):
                k = len(im[1]) - 1
                ratio = (tw[-1] - tw[0]) / ((t[-1] - t[0]) / (len(t) - 1))
                if not (k >= 1 and im[1][0] == float(tw[0]) and im[1][-1] == float(tw[-1]) and abs(Fraction(k) - ratio) <= Fraction(1, 2) + Fraction(1, 10 ** 9)
                        and np.allclose(np.diff(im[1]), float(tw[-1] - tw[0]) / k, rtol=1e-12)):
                    bad.append(("a non-uniformly sampled series is put on an equidistant grid from the first to the last retained sample, with the "
                                "spacing closest to its average step, before it is filtered", "k=%s from %s to %s" % (round(ratio), tw[0], tw[-1]),
                                im[1].tolist()[:6]))
        names = [c[0] for c in calls]
        if [ORDER[n] for n in names] != sorted(ORDER[n] for n in names) or len(names) != o["taper"] + o["filter"] + o["smooth"]:
            bad.append(("stages applied in the order taper, filter, smooth, each once iff requested",
                        ["taper"] * o["taper"] + ["filter"] * o["filter"] + ["smooth"] * o["smooth"], names))
        for c in calls:
            if c[0] in ("lowpass", "highpass", "bandpass", "bandblock") and len(im[1]) >= 2:
                if abs(c[1] - (im[1][1] - im[1][0])) > 1e-9 * abs(im[1][1] - im[1][0]):
                    bad.append(("the filter sees the sampling interval of the series it is applied to", float(im[1][1] - im[1][0]), c[1]))
            # every stage gets the parameters of its own option
            if c[0] in ("lowpass", "highpass", "bandpass", "bandblock"):
                want = (FARGS[ftype][0], [float(v) for v in FARGS[ftype][1:]])
                have = ({"lowpass": "lp", "highpass": "hp", "bandpass": "bp", "bandblock": "bs"}[c[0]], c[2])
                if want != have:
                    bad.append(("the filter stage is the requested filter with the requested frequencies", list(want), list(have)))
            elif c[0] == "taper" and c[1] is not None and float(c[1]) != float(sp["taperfrac"]):
                bad.append(("the taper stage gets the requested taper fraction", sp["taperfrac"], c[1]))
            elif c[0] == "smooth" and ((c[1] is not None and c[1] != sp["window_len"]) or (c[2] is not None and c[2] != sp["window"])):
                bad.append(("the smoothing stage gets the requested window length and window function", [sp["window_len"], sp["window"]],
                            [c[1], c[2]]))
    return res[0], res[1], bad


CASE_KEYS = ("series", "xpow", "dtg_ref", "history", "checkpoints", "sibling", "twin", "wins", "qs", "req", "step", "step_spell")


def gen_wins(rng, t):
    """windows on the boundary (a sample time itself, one ulp beside it, a single instant, reversed, unbounded, everything, nothing)
    in every spelling and through every entry point"""
    n = len(t)
    out = []
    for _ in range(rng.choice([1, 2, 3])):
        i, j = sorted([rng.randrange(n), rng.randrange(n)])
        up = lambda u: Fraction(float(np.nextafter(float(u), np.inf)))
        dn = lambda u: Fraction(float(np.nextafter(float(u), -np.inf)))
        k = rng.random()
        if k < 0.2:
            a, b = t[i], t[j]                               # both limits are sample times
        elif k < 0.4:
            a, b = rng.choice([up, dn, lambda u: u])(t[i]), rng.choice([up, dn, lambda u: u])(t[j])
        elif k < 0.5:
            a = b = t[i]                                    # a single instant that is a sample
        elif k < 0.58:
            a = b = t[i] + (t[min(i + 1, n - 1)] - t[i]) / 2  # ... that is no sample (or the last one)
        elif k < 0.66:
            a, b = t[j] + Fraction(1, 16), t[i] - Fraction(1, 16)   # reversed: nothing
        elif k < 0.8:
            a, b = rng.choice(["-inf", t[i]]), rng.choice(["inf", t[j]])
        elif k < 0.9:
            a, b = t[0], t[-1]
        else:
            a, b = t[i] - Fraction(rng.randint(0, 3), 16), t[j] + Fraction(rng.randint(0, 3), 16)
        out.append({"a": str(a), "b": str(b), "spell": rng.choice(TWIN_SPELLINGS), "via": rng.choice(WIN_VIAS)})
    return out


def gen_case(rng, t, x, xpow=0):
    """history on the object first; window / interpolation points / requested array / step are then drawn relative to the series
    as stored after the history"""
    case = {}
    xmul = Fraction(2) ** xpow
    if xpow:
        case["xpow"] = xpow
    big = max(abs(t[0]), abs(t[-1])) > BIG_T
    if rng.random() < 0.5 and not big:
        case["dtg_ref"] = True
    if rng.random() < 0.35:
        # only spellings that can represent this series exactly (make_ts would silently fall back to float arrays otherwise)
        ok = ["view", "shared"]
        if all(v.denominator == 1 for v in t) and all(v.denominator == 1 and abs(v) < 2 ** 62 for v in x):
            ok += ["int", "int", "int"]
        if all(float(np.float32(float(v))) == float(v) for v in x):
            ok += ["f32"]
        if case.get("dtg_ref") and all((u * 10 ** 6).denominator == 1 for u in t):
            ok += ["datetime"]
        case["series"] = rng.choice(ok)
    hist, t, x = gen_history(rng, t, x, bool(case.get("dtg_ref")), allow_dtg=not big, xmul=xmul)
    if rng.random() < 0.2:
        case["sibling"] = True
    a, b = sorted([t[rng.randrange(len(t))] + Fraction(rng.randint(-1, 1), 16), t[rng.randrange(len(t))] + Fraction(rng.randint(-1, 1), 16)])
    case["twin"] = [str(a), str(b)]
    case["wins"] = gen_wins(rng, t)
    i = rng.randrange(len(t) - 1)
    q = t[i] + Fraction(rng.randint(0, 8), 8) * (t[i + 1] - t[i])
    case["qs"] = [str(q), str(t[0] - Fraction(1, 8)), str(t[-1] + Fraction(1, 8))]
    case["req"] = [str(v) for v in gen_request(rng, t)]
    d = (t[-1] - t[0]) / rng.choice([1, 2, 3, 5, 7]) * rng.choice([Fraction(1), Fraction(5, 4), Fraction(3, 4)])
    if (2 * (t[-1] - t[0]) / d).denominator == 1 and (2 * (t[-1] - t[0]) / d).numerator % 2 == 1:
        d = d * Fraction(9, 8)     # no exact rounding ties (float division of a non-dyadic step)
    case["step"] = str(d)
    if rng.random() < 0.4:
        case["step_spell"] = rng.choice(STEP_SPELLINGS[1:])
    # the same key argument with another setting, earlier on the same object (a result remembered under the window / step / array
    # alone would come back now)
    if rng.random() < 0.35:
        k = rng.random()
        if k < 0.4:
            kw = {"twin": [float(a), float(b)]}
        elif k < 0.7:
            kw = {"resample": float(d)}
        else:
            kw = {"resample": [float(Fraction(v)) for v in case["req"]]}
        kw.update(rng.choice([{"taperfrac": 0.25}, {"window_len": 3}, {"filterargs": ["hp", 0.05]}, {"taperfrac": 0.5, "window_len": 5},
                              {"filterargs": ["tp", 1.0]}]))
        hist = list(hist)
        hist.insert(rng.randint(0, len(hist)), {"op": rng.choice(["get", "get", "get_edit", "mean", "entry"]), "kw": kw, "via": rng.choice(ENTRIES)})
    if hist:
        case["history"] = hist
        case["checkpoints"] = rng.random() < 0.75
    return case


def fail_input(inp, case, keys, nsteps=None):
    j = dict(inp)
    for k in ("series", "xpow", "dtg_ref"):
        if case.get(k):
            j[k] = case[k]
    hist = case.get("history") or []
    if nsteps is not None:
        hist = hist[:nsteps]
    if hist:
        j["history"] = hist
        j["checkpoints"] = bool(case.get("checkpoints", True))
    for k in keys:
        if k in case:
            j[k] = case[k]
    return j


def avoid_tie(o, t):
    """the number of grid points is round((t1-t0)/d): an exact tie (x.5) in rational arithmetic may fall on either side in floating
    point when d is not exactly representable — keep ties out of the exact correspondence"""
    if o["resample"] is not None and o["resample"][0] == "step":
        tw = [u for u in t if o["twin"] is None or o["twin"][0] <= u <= o["twin"][1]]
        if len(tw) >= 2:
            ratio = (tw[-1] - tw[0]) / o["resample"][1]
            if (2 * ratio).denominator == 1 and (2 * ratio).numerator % 2 == 1:
                o["resample"] = ("step", o["resample"][1] * Fraction(9, 8))
    elif o["resample"] is None and o["filter"] and o["twin"] is not None and len(t) >= 2:
        # the same tie in the automatic resampling of a non-uniform series before filtering (step = average step, not dyadic)
        tw = [u for u in t if o["twin"][0] <= u <= o["twin"][1]]
        if len(tw) >= 2:
            ratio = (tw[-1] - tw[0]) / ((t[-1] - t[0]) / (len(t) - 1))
            if (2 * ratio).denominator == 1 and (2 * ratio).numerator % 2 == 1:
                o["twin"] = None
    return o


def compare_get(chk, inp, out, im1, im2, bad, stream="pl.get"):
    """oracles + model-vs-implementation comparison of one tagged request (first call and the same call repeated)"""
    listwin = False
    for oracle, exp, obs in bad:
        if oracle == LIST_WIN:
            listwin = True
            chk.fail(oracle, inp, exp, obs, clause="list_with_window")
        else:
            chk.fail(oracle, inp, exp, obs)
    for nth, im in ((stream, im1), (stream + " (same call repeated)", im2)):
        if out.startswith("err") or im[0] != "ok":
            if out.strip() != im[0] and not (listwin and out.strip() == "err assertion"):
                # window empty + step resample: numpy raises IndexError — model `err index`
                chk.disagree(nth, inp, out, im[0])
            continue
        mt, mx = [[float(Fraction(v)) for v in part.split()] for part in out[3:].split("|")]
        ok = len(mt) == len(im[1]) and len(mx) == len(im[2]) and np.allclose(mt, im[1], rtol=1e-12, atol=1e-12) and \
            np.allclose(mx, im[2], rtol=1e-11, atol=1e-11)
        if not ok:
            chk.disagree(nth, inp, [mt[:6], mx[:6]], [im[1][:6].tolist(), im[2][:6].tolist()])


def is_list_with_window(f):
    """known-finding shape: get(twin=..., resample=<list>) is not refused (only the ndarray spelling is)"""
    return f.get("clause") == "list_with_window"


def is_modify_list(f):
    """known-finding shape: after modify(resample=<list>) the stored time array is a Python list"""
    hist = (f.get("input") or {}).get("history") or []
    return any(step_op(h) == "modify_req" and h.get("spell") == "list" for h in hist if isinstance(h, dict))


def float_case(inp):
    """stand-alone resampling and step resampling on decimal (float) grids: inp = start, dt0, n, dt (+ optional dt_spell).
    The series is its own time axis (x = t), so the values returned by resample() are the new times.
    Returns [(oracle, expected, observed)]."""
    from qats import TimeSeries
    t = inp["start"] + inp["dt0"] * np.arange(inp["n"])
    d = spell_step(inp["dt"], inp.get("dt_spell", "float"))
    dd = float(d)
    bad = []
    try:
        ts = TimeSeries("s", t, np.sin(t))
        ti = TimeSeries("i", t, t.copy())
    except Exception as e:
        return [("a series on a decimal time grid can be built", "a series", type(e).__name__ + ": " + str(e)[:80])]
    span = t[-1] - t[0]
    try:
        r = ts.resample(dt=d)
    except Exception as e:
        return [("stand-alone resampling of the full duration to a positive step not exceeding it succeeds (float grids)",
                 "values", type(e).__name__ + ": " + str(e)[:80])]
    tn = np.arange(t[0], t[-1], step=dd)
    if len(r) < len(tn) - 1 or len(r) < 1:
        bad.append(("all new times inside the original span are kept", len(tn), len(r)))
    # the new times themselves (identity signal), against a reference that shares no code with the implementation
    tol = 8 * float(np.spacing(max(abs(t[0]), abs(t[-1])))) + 1e-12 * dd
    rt = attempt(lambda: np.asarray(ti.resample(dt=d), dtype=float))
    if isinstance(rt, str):
        bad.append(("stand-alone resampling of the full duration to a positive step not exceeding it succeeds (float grids)", "values", rt))
    else:
        # start + i*dt < end for all i <= kmin (with a margin: every step of the grid may be rounded by ulp(|t|))
        kmin = int(np.floor((span - tol - (span / dd + 8) * float(np.spacing(max(abs(t[0]), abs(t[-1]))))) / dd - 1e-9))
        ref = t[0] + dd * np.arange(len(rt))
        if len(rt) != len(r):
            bad.append(("stand-alone resampling returns one value per new time, whatever the data", len(r), len(rt)))
        elif len(rt) < kmin + 1 or len(rt) > int(np.ceil(span / dd + 1e-9)) + 1:
            bad.append(("stand-alone resampling covers the span: new times start, start + dt, ... as long as they are inside", kmin + 1, len(rt)))
        elif np.any(rt < t[0] - tol) or np.any(rt > t[-1] + tol):
            bad.append(("all new times are inside the original span", [float(t[0]), float(t[-1])], [float(rt.min()), float(rt.max())]))
        elif not np.allclose(rt, np.minimum(ref, t[-1]), rtol=0.0, atol=(len(rt) + 8) * float(np.spacing(max(abs(t[0]), abs(t[-1])))) + 1e-9 * dd):
            bad.append(("the new times are start + i*dt", ref[:5].tolist(), rt[:5].tolist()))
        else:
            # reference at the observed new times (they are only accurate to ulp(|t|): the slope of the signal is at most 1)
            exp = np.interp(np.clip(rt, t[0], t[-1]), t, np.sin(t))
            if not np.allclose(r, exp, rtol=1e-9, atol=1e-9 + tol):
                bad.append(("stand-alone resampling returns the linear interpolation of the stored samples at the new times",
                            exp[:5].tolist(), np.asarray(r)[:5].tolist()))
    # get(resample=step) on the same decimal grid: never raises, ends on the stored ends, values are the interpolation
    got = attempt(lambda: ts.get(resample=d))
    if isinstance(got, str):
        bad.append(("resampling to a step gives an equidistant grid from the first to the last sample (float grids): no exception", "a grid", got))
    else:
        tr, xr = np.asarray(got[0], dtype=float), np.asarray(got[1], dtype=float)
        k = len(tr) - 1
        if len(tr) != len(xr):
            bad.append(("time and data have equal length", len(tr), len(xr)))
        elif k < 1 or tr[0] != t[0] or tr[-1] != t[-1] or abs(k - span / dd) > 0.5 + 1e-6 or \
                not np.allclose(np.diff(tr), span / k, rtol=1e-9, atol=tol):
            bad.append(("resampling to a step gives an equidistant grid from the first to the last sample whose spacing is the one closest "
                        "to the request (float grids)", "k=%s" % round(span / dd), tr[:6].tolist()))
        elif not np.allclose(xr, np.interp(tr, t, np.sin(t)), rtol=1e-9, atol=1e-9):
            bad.append(("resampling returns the linear interpolation of the stored samples on the requested grid (float grids)",
                        np.interp(tr, t, np.sin(t))[:5].tolist(), xr[:5].tolist()))
    return bad


# ---- the unpatched stage functions: every stage combination with the stages' own parameters -------------------------------------------
REAL_WINDOWS = ("rectangular", "hanning", "hamming", "bartlett", "blackman")
REAL_VIAS = ("get", "get", "get", "positional", "geta", "getda", "to_dataframe", "modify")
REAL_STAGES = ("taper", "filter", "smooth")
MIN_FILTER_LEN = 40         # scipy's forward-backward filtering pads the signal: shorter signals may be refused
EQUAL_LEN = "time and data always have equal length, for every combination of stages (unpatched stage functions)"


def gen_real(rng):
    """a float series (uniform on a dyadic / decimal step, or non-uniform; 3 - 256 samples) and 1 - 3 requests to the same object,
    each a combination of window / resampling (step or array) / taper / filter / smoothing with the stages' own parameter ranges:
    taper fractions 0 .. 1, the five filter kinds with cut-offs at 5 % .. 90 % of the Nyquist frequency of the grid that is filtered,
    smoothing windows of every length from 0 up to the number of retained samples (even and odd) and every window function"""
    n = rng.choice([3, 4, 5, 6, 8, 13, 21, 40, 64, 100, 161, 256])
    dt0 = rng.choice([0.5, 1.0, 0.25, 0.125, 0.1, 0.05, 2.0])
    start = rng.choice([0.0, 0.0, -3.0, 10.0, 100.5])
    uniform = rng.random() < 0.75
    if uniform:
        t = [start + dt0 * i for i in range(n)]
    else:
        t = [start]
        for _ in range(n - 1):
            t.append(t[-1] + dt0 * rng.choice([0.5, 1.0, 1.0, 1.5, 2.0]))
    mean = rng.choice([0.0, 2.0, -50.0, 1000.0])
    amp = rng.choice([1.0, 0.01, 30.0])
    per = rng.choice([5.0, 12.0, 40.0]) * dt0
    x = [mean + amp * (float(np.sin(2 * np.pi * u / per)) + 0.2 * rng.gauss(0.0, 1.0)) for u in t]
    if rng.random() < 0.08:
        x = [mean] * n
    reqs = [gen_real_request(rng, t, uniform) for _ in range(rng.choice([1, 1, 2, 3]))]
    return {"real": 1, "t": t, "x": x, "requests": reqs}


def gen_real_request(rng, t, uniform):
    n = len(t)
    r = {}
    i, j = 0, n - 1
    if rng.random() < 0.35 and n >= 4:
        i = rng.randrange(0, n - 2)
        j = rng.randrange(i + 2, n)
        eps = rng.choice([0.0, 0.0, 1e-3]) * (t[1] - t[0])
        r["twin"] = [t[i] - eps, t[j] + eps]
    m = j - i + 1                                            # samples that go into the stages (estimate: generator only)
    span = t[j] - t[i]
    dt = span / (m - 1)
    k = rng.random()
    if k < 0.25:
        m = max(2, rng.choice([2, 3, 4, 7, 10, m - 1, m, 2 * (m - 1), 3 * m]))
        r["resample"] = span / (m - 1) * rng.choice([1.0, 1.0, 1.02, 0.97])
        dt = span / (m - 1)
    elif k < 0.4 and "twin" not in r:
        m = rng.choice([3, 4, 5, 10, 33, 64, n])
        if rng.random() < 0.6:
            r["resample"] = [t[0] + span * q / (m - 1) for q in range(m - 1)] + [t[-1]]
            dt = span / (m - 1)
        else:
            r["resample"] = sorted(t[0] + span * rng.random() for _ in range(m))
            dt = None                                        # not equidistant: no filter on it
    elif not uniform:
        avg = (t[-1] - t[0]) / (n - 1)
        m_f = int(round(span / avg)) + 1                     # the grid a filter would work on
    if rng.random() < 0.45:
        r["taperfrac"] = rng.choice([0.001, 0.01, 0.1, 0.25, 0.5, 0.9, 0.0, 1.0])
    if rng.random() < 0.4 and dt is not None and m >= 2:
        if not uniform and "resample" not in r:
            m = m_f
            dt = span / max(m - 1, 1)
        nyq = 0.5 / dt
        f1, f2 = sorted(rng.sample([0.05, 0.1, 0.3, 0.6, 0.9], 2))
        kind = rng.choice(["lp", "hp", "bp", "bs", "tp"])
        r["filterargs"] = {"lp": ["lp", f1 * nyq], "hp": ["hp", f1 * nyq], "bp": ["bp", f1 * nyq, f2 * nyq], "bs": ["bs", f1 * nyq, f2 * nyq],
                           "tp": ["tp", rng.choice([[0.0, 1.0], [0.1, 1.0], [0.0, 0.5], [-1.0, 2.0]])]}[kind]   # pass band of amplitudes
    if rng.random() < 0.6:
        pool = [2, 3, 4, 5, 6, 7, 8, 9, 10, 11, 12, 16, 21, 24, 31, 50, m // 2, m - 2, m - 1, m - 1]
        pool = [w for w in pool if 2 <= w < m] or [2]
        r["window_len"] = rng.choice(pool + [0, 1] + ([m, m] if rng.random() < 0.5 else []))
        if rng.random() < 0.6:
            r["window"] = rng.choice(REAL_WINDOWS)
    if rng.random() < 0.4:
        r["via"] = rng.choice(REAL_VIAS)
    stages = real_stages(r)
    if stages:
        r["split"] = rng.choice(stages)
    return r


def real_stages(r):
    return [s for s, k in zip(REAL_STAGES, ("taperfrac", "filterargs", "window_len")) if r.get(k) is not None]


def real_kw(r, keys=("twin", "resample", "taperfrac", "filterargs", "window_len", "window")):
    kw = {}
    for k in keys:
        if r.get(k) is None:
            continue
        v = r[k]
        if k == "twin":
            v = (float(v[0]), float(v[1]))
        elif k == "resample":
            v = np.array(v, dtype=float) if isinstance(v, list) else float(v)
        elif k == "filterargs":
            v = tuple(v)
        elif k == "window" and "window_len" not in keys:
            continue
        kw[k] = v
    return kw


def real_via(ts, via, kw):
    if via == "modify":
        obj = ts.copy()
        obj.modify(**kw)
        return obj.t, obj.x
    return via_entry(ts, via, kw)


def lengths(got):
    """(samples in time, samples in data) of a result, or None if it is not a pair of one-dimensional arrays"""
    try:
        gt, gx = np.asarray(got[0], dtype=float), np.asarray(got[1], dtype=float)
    except Exception:
        return None
    if gt.ndim != 1 or gx.ndim != 1:
        return None
    return len(gt), len(gx)


def real_clauses(inp):
    """The clauses that can be evaluated with the stage functions as they are (inp = t, x, requests; all requests go to one object):
    every stage combination returns time and data of equal length; taper / filter / smoothing change the data only; asking for the
    stages together is asking for them one after the other, in the order window + resampling, taper, filter, smoothing (the later
    stages are asked from a second series that holds the result of the earlier ones); the same request through the other entry
    points; nothing of it changes the stored arrays.  A request may be refused (ValueError) only where a stage cannot work: a
    smoothing window that is not shorter than the data, a Butterworth filter on fewer than 40 samples.
    Returns [(oracle, expected, observed, index of the request)]."""
    from qats import TimeSeries
    t, x = np.array(inp["t"], dtype=float), np.array(inp["x"], dtype=float)
    scale = max(1.0, float(np.max(np.abs(x)))) if len(x) else 1.0
    ts = TimeSeries("s", t.copy(), x.copy())
    bad = []
    for idx, r in enumerate(inp["requests"]):
        kw = real_kw(r)
        via = r.get("via", "get")
        label = "" if via == "get" else " — through %s" % via
        base = attempt(lambda: ts.get(**real_kw(r, ("twin", "resample"))))
        if isinstance(base, str) or lengths(base) is None or lengths(base)[0] != lengths(base)[1]:
            continue                                         # window + resampling alone: the other streams' subject
        m = len(base[0])
        if m < 2:
            continue
        wl = r.get("window_len")
        fa = r.get("filterargs")
        # the data the smoothing stage gets (a non-uniform series is put on another grid before it is filtered)
        ps = base if fa is None else attempt(lambda: ts.get(**real_kw(r, ("twin", "resample", "taperfrac", "filterargs"))))
        ms = m if isinstance(ps, str) or lengths(ps) is None else lengths(ps)[1]
        tiny = isinstance(wl, int) and wl >= 3 and wl >= min(m, ms)    # the window is not shorter than the data
        short = fa is not None and fa[0] != "tp" and m < MIN_FILTER_LEN
        got = attempt(lambda: real_via(ts, via, kw))
        if isinstance(got, str):
            if not ((tiny or short) and got == "ValueError"):
                bad.append((EQUAL_LEN + ": a result is returned" + label, "time and data, %d samples" % m, got, idx))
            continue
        ln = lengths(got)
        if ln is None or ln[0] != ln[1]:
            bad.append((EQUAL_LEN + label, "as many data samples as time samples", "unreadable" if ln is None else list(ln), idx))
            continue
        gt, gx = np.asarray(got[0], dtype=float), np.asarray(got[1], dtype=float)
        # the stored series is uniformly sampled (a non-uniform one is put on an equidistant grid before it is filtered)
        equidistant = len(t) >= 2 and bool(np.allclose(np.diff(t), (t[-1] - t[0]) / (len(t) - 1), rtol=1e-6, atol=0.0))
        own_axis = fa is None or r.get("resample") is not None or equidistant
        if own_axis and not np.array_equal(gt, np.asarray(base[0], dtype=float)):
            bad.append(("tapering, filtering and smoothing change the data only: the time array is the one window + resampling give" + label,
                        np.asarray(base[0]).tolist()[:6], gt.tolist()[:6], idx))
            continue
        direct = got if via == "get" else attempt(lambda: ts.get(**kw))
        if via != "get":
            if isinstance(direct, str) or lengths(direct) != ln or not np.array_equal(direct[0], gt) or \
                    not np.allclose(direct[1], gx, rtol=1e-12, atol=1e-12 * scale):
                bad.append(("the same request through another entry point returns what get() returns" + label, head(direct), head(got), idx))
                continue
        # together = one after the other
        split = r.get("split")
        stages = real_stages(r)
        if split in stages and len(gt) >= 2:
            first = ["twin", "resample"] + [k for s, k in zip(REAL_STAGES, ("taperfrac", "filterargs", "window_len")) if REAL_STAGES.index(s) < REAL_STAGES.index(split)]
            later = [k for s, k in zip(REAL_STAGES, ("taperfrac", "filterargs", "window_len")) if REAL_STAGES.index(s) >= REAL_STAGES.index(split)] + ["window"]
            filt_later = fa is not None and "filterargs" in later
            pre = attempt(lambda: ts.get(**real_kw(r, first)))
            if not isinstance(pre, str) and lengths(pre) is not None and lengths(pre)[0] == lengths(pre)[1] and len(pre[0]) >= 2:
                pt = np.asarray(pre[0], dtype=float)
                grid_ok = bool(np.allclose(np.diff(pt), (pt[-1] - pt[0]) / (len(pt) - 1), rtol=1e-6, atol=0.0))
                if (not filt_later) or (grid_ok and (equidistant or r.get("resample") is not None)):
                    def second():
                        ts2 = TimeSeries("p", np.array(pre[0], dtype=float), np.array(pre[1], dtype=float))
                        return ts2.get(**real_kw(r, later))
                    suf = attempt(second)
                    if isinstance(suf, str):
                        if not ((tiny or short) and suf == "ValueError"):
                            bad.append(("window, resampling, tapering, filtering and smoothing are applied in that order: the stages from '%s' on, "
                                        "asked from a series holding the result of the earlier ones, give the result of the whole request" % split,
                                        head(direct), suf, idx))
                    elif lengths(suf) != ln or not np.array_equal(suf[0], direct[0]) or \
                            not np.allclose(suf[1], direct[1], rtol=1e-9, atol=1e-9 * scale):
                        bad.append(("window, resampling, tapering, filtering and smoothing are applied in that order: the stages from '%s' on, "
                                    "asked from a series holding the result of the earlier ones, give the result of the whole request" % split,
                                    [list(ln), head(direct)], [list(lengths(suf) or ()), head(suf)], idx))
    got = attempt(lambda: ts.get())
    if isinstance(got, str) or not (np.array_equal(got[0], t) and np.array_equal(got[1], x)):
        bad.append(("without options the stored arrays are returned" + AFTER, [t.tolist()[:5], x.tolist()[:5]], head(got), len(inp["requests"]) - 1))
    return bad

# ---- requests for several series at once (containers) ----------------------------------------------------------------------------------------
CONTAINER_VIAS = ("trace", "trace", "trace", "getda", "gumbel")
EACH = " — for every series of a request that names several series (whatever the other series' time spans and the order they are listed in)"


def gen_container(rng):
    """2 - 4 float series that cover different time spans (disjoint / overlapping / nested / identical; different steps; uniform or
    not) and 1 - 3 requests to the same container, each naming the series in some order with one time window for all of them: far
    wider than every series, the hull of all spans, reaching beyond the start / end of some of the series only, limits that are the
    first / last time of one of the series, inside the intersection, outside one series altogether; with or without a filter;
    through qats.app.funcs.calculate_trace / calculate_gumbel_fit and TsDB.getda(names=[...])"""
    k = rng.choice([2, 2, 3, 4])
    series = []
    for i in range(k):
        if series and rng.random() < 0.15:
            t = list(series[-1]["t"])                        # the same time axis as the previous one
        else:
            n = rng.choice([5, 12, 41, 60, 101, 120])
            dt0 = rng.choice([0.1, 0.25, 0.5, 1.0])
            start = rng.choice([0.0, 0.0, 10.0, 20.0, -5.0, 100.5, 33.25])
            if rng.random() < 0.8:
                t = [start + dt0 * j for j in range(n)]
            else:
                t = [start]
                for _ in range(n - 1):
                    t.append(t[-1] + dt0 * rng.choice([0.5, 1.0, 1.0, 1.5, 2.0]))
        mean = rng.choice([0.0, 2.0, -50.0])
        per = rng.choice([3.0, 7.0, 20.0])
        x = [mean + float(np.sin(2 * np.pi * u / per)) + 0.3 * rng.gauss(0.0, 1.0) for u in t]
        series.append({"name": "s%d" % i, "t": t, "x": x})
    starts, ends = [s["t"][0] for s in series], [s["t"][-1] for s in series]
    lo, hi = min(starts), max(ends)
    ilo, ihi = max(starts), min(ends)                        # the intersection of the spans (empty if ilo > ihi)
    reqs = []
    for _ in range(rng.choice([1, 1, 2, 3])):
        names = [s["name"] for s in series]
        rng.shuffle(names)
        if rng.random() < 0.2 and len(names) > 2:
            names = names[:-1]
        kind = rng.choice(["wide", "wide", "huge", "hull", "beyond-one", "beyond-one", "ends", "inside", "mid", "left-open"])
        one = rng.choice(series)["t"]
        if kind == "wide":
            a, b = -1.0e6, 1.0e6
        elif kind == "huge":
            a, b = -1.0e30, 1.0e30
        elif kind == "hull":
            a, b = lo, hi
        elif kind == "beyond-one":
            a, b = one[rng.randrange(0, len(one) // 2)], one[-1] + rng.choice([0.05, 1.0, 50.0, 1.0e4])
        elif kind == "left-open":
            a, b = one[0] - rng.choice([0.05, 1.0, 50.0, 1.0e4]), one[rng.randrange(len(one) // 2, len(one))]
        elif kind == "ends":
            a, b = sorted([rng.choice(starts + ends), rng.choice(starts + ends)])
        elif kind == "inside" and ilo < ihi:
            a = ilo + (ihi - ilo) * rng.choice([0.0, 0.1, 0.3])
            b = ihi - (ihi - ilo) * rng.choice([0.0, 0.1, 0.3])
        else:
            a = lo + (hi - lo) * rng.choice([0.1, 0.25, 0.4])
            b = hi - (hi - lo) * rng.choice([0.1, 0.25, 0.4])
        r = {"via": rng.choice(CONTAINER_VIAS), "names": names, "twin": [float(a), float(b)], "window": kind}
        if rng.random() < 0.3:
            r["twin_spell"] = "list"
        if rng.random() < 0.3 and r["via"] != "gumbel":
            steps = [(s["t"][-1] - s["t"][0]) / (len(s["t"]) - 1) for s in series]
            nyq = 0.5 / max(steps)
            r["fargs"] = rng.choice([["lp", 0.3 * nyq], ["hp", 0.2 * nyq], ["bp", 0.1 * nyq, 0.6 * nyq], ["tp", [-1.0, 1.5]]])
        reqs.append(r)
    return {"container": 1, "series": series, "requests": reqs}


def container_call(objs, r):
    """one request for several series through a multi-series entry point: {name: dict(t, x[, tmin, xmin, tmax, xmax])}"""
    from collections import OrderedDict
    a, b = r["twin"]
    twin = [a, b] if r.get("twin_spell") == "list" else (a, b)
    fargs = None if r.get("fargs") is None else tuple(r["fargs"])
    via = r.get("via", "trace")
    if via == "getda":
        from qats import TsDB
        db = TsDB()
        for name in sorted(objs):
            db.add(objs[name])
        got = db.getda(names=list(r["names"]), twin=twin, filterargs=fargs)
        return {name: dict(t=v[0], x=v[1]) for name, v in got.items()}
    from qats.app import funcs
    container = OrderedDict((name, objs[name]) for name in r["names"])
    if r.get("plain_dict"):
        container = dict(container)
    if via == "gumbel":
        return funcs.calculate_gumbel_fit(container, twin, fargs)
    return funcs.calculate_trace(container, twin, fargs)


def container_clauses(inp):
    """A request naming several series with one time window is that request for each of them: every series comes back with exactly
    its stored samples inside the closed window (unchanged, in order); with a filter, with what the series alone gives for the same
    window and filter; the peaks / troughs reported with the trace lie inside the window and are those of the series alone.
    Returns [(oracle, expected, observed, index of the request)]."""
    from qats import TimeSeries
    data = {s["name"]: (np.array(s["t"], dtype=float), np.array(s["x"], dtype=float)) for s in inp["series"]}
    objs = {name: TimeSeries(name, t.copy(), x.copy()) for name, (t, x) in data.items()}
    bad = []
    for idx, r in enumerate(inp["requests"]):
        a, b = r["twin"]
        fargs = None if r.get("fargs") is None else tuple(r["fargs"])
        via = r.get("via", "trace")
        label = " (through %s)" % {"trace": "app.funcs.calculate_trace", "getda": "TsDB.getda", "gumbel": "app.funcs.calculate_gumbel_fit"}[via]
        # each series alone, on an object of its own
        alone = {}
        for name in r["names"]:
            t, x = data[name]
            alone[name] = attempt(lambda: TimeSeries(name, t.copy(), x.copy()).get(twin=(a, b), filterargs=fargs))
        got = attempt(lambda: container_call(objs, r))
        if via == "gumbel":
            keeps = [data[name][1][(data[name][0] >= a) & (data[name][0] <= b)] for name in r["names"]]
            if any(len(k) == 0 for k in keeps) or len(keeps) < 2:
                continue                                     # an extreme of no samples: nothing to compare
            exp = sorted(float(np.max(k)) for k in keeps)
            if isinstance(got, str) or not np.array_equal(np.asarray(got["sample"], dtype=float), np.array(exp)):
                bad.append(("with a time window exactly the samples in the closed window are returned: the largest value of each "
                            "series is the largest of its stored samples inside the window" + EACH + label,
                            exp, got if isinstance(got, str) else np.asarray(got["sample"], dtype=float).tolist(), idx))
            continue
        if isinstance(got, str):
            if not any(isinstance(v, str) for v in alone.values()):
                bad.append(("a request for several series returns a result when the request for each series alone does" + label,
                            {n: head(v) for n, v in alone.items()}, got, idx))
            continue
        for name in r["names"]:
            t, x = data[name]
            one = alone[name]
            if name not in got:
                bad.append(("every requested series is returned" + label, name, sorted(got), idx))
                continue
            g = (got[name]["t"], got[name]["x"])
            ln = lengths(g)
            if ln is None or ln[0] != ln[1]:
                bad.append(("time and data always have equal length" + EACH + label, "as many data samples as time samples",
                            "unreadable" if ln is None else [name, list(ln)], idx))
                continue
            gt, gx = np.asarray(g[0], dtype=float), np.asarray(g[1], dtype=float)
            keep = (t >= a) & (t <= b)
            if fargs is None:
                if not (np.array_equal(gt, t[keep]) and np.array_equal(gx, x[keep])):
                    bad.append(("with a time window, exactly the samples whose time lies in the closed window are returned, unchanged "
                                "and in order" + EACH + label,
                                [name, int(keep.sum()), head((t[keep], x[keep]))], [name, len(gt), head(g)], idx))
                    continue
            elif isinstance(one, str) or lengths(one) != ln or not np.array_equal(np.asarray(one[0], dtype=float), gt) or \
                    not np.allclose(np.asarray(one[1], dtype=float), gx, rtol=1e-12, atol=1e-12 * xscale(x)):
                bad.append(("window and filter give for a series named together with others what they give for the series alone"
                            + EACH + label, [name, head(one)], [name, len(gt), head(g)], idx))
                continue
            if via != "trace":
                continue
            for what in ("minima", "maxima"):
                tk, xk = ("tmin", "xmin") if what == "minima" else ("tmax", "xmax")
                pt, px = np.asarray(got[name][tk], dtype=float), np.asarray(got[name][xk], dtype=float)
                ref = attempt(lambda: getattr(TimeSeries(name, t.copy(), x.copy()), what)(twin=(a, b), filterargs=fargs, rettime=True))
                if pt.shape != px.shape or (len(pt) and not (np.all(pt >= a) and np.all(pt <= b))):
                    bad.append(("the %s reported with a windowed trace lie inside the closed window, one time per value" % what + EACH + label,
                                [name, a, b], [name, pt.tolist()[:5], px.tolist()[:5]], idx))
                elif isinstance(ref, str) or np.asarray(ref[0]).shape != px.shape or \
                        not np.allclose(np.asarray(ref[0], dtype=float), px, rtol=1e-12, atol=1e-12 * xscale(x)) or \
                        not np.array_equal(np.asarray(ref[1], dtype=float), pt):
                    bad.append(("the %s reported with a windowed trace are those of the windowed series alone" % what + EACH + label,
                                [name, ref if isinstance(ref, str) else [np.asarray(ref[1]).tolist()[:5], np.asarray(ref[0]).tolist()[:5]]],
                                [name, pt.tolist()[:5], px.tolist()[:5]], idx))
    for name, (t, x) in data.items():
        got = attempt(lambda: objs[name].get())
        if isinstance(got, str) or not (np.array_equal(got[0], t) and np.array_equal(got[1], x)):
            bad.append(("without options the stored arrays are returned" + AFTER, [name, head((t, x))], head(got), len(inp["requests"]) - 1))
    return bad


def run(chk):
    chk.extra["rule"] = RULE + " " + SMOOTH_RULE + " " + c11_long.RULE
    chk.assumptions += ["dyadic sample times and values; interp1d's slope division is exact or compared to 1e-12",
                        "stage functions replaced by tag functions on both sides for the order/dt correspondence; their numerics are C12's subject"]
    rng = chk.rng
    drv = core.Driver()
    # the concrete model of the smoothing / tapering stages against signal.smooth / signal.taper / TimeSeries.get
    c11_smooth.run_smooth(chk, drv)
    from .gen_ties import run_grid_tie
    run_grid_tie(chk, drv)      # regenerated argument of round() in new_timearray against the grid get(resample=d) builds
    corpus = core.load_corpus("C11")
    N = 500 if chk.quick else 8000
    lines, meta = [], []
    for c in corpus:
        if "opts" in c:
            t, x = [Fraction(v) for v in c["t"]], [Fraction(v) for v in c["x"]]
            meta.append((t, x, opts_unjson(c["opts"]), c.get("filter", "lp"), c.get("spell") or {}, "corpus pl.get"))
    for _ in range(N):
        t, x = gen_series(rng)
        spell = gen_spell(rng)
        if spell.get("series") == "int":
            # a series that integer arrays can hold: integer sample times (uniform or not) and integer data
            t = [Fraction(int(t[0])) + i for i in range(len(t))] if rng.random() < 0.5 else \
                [Fraction(v) for v in np.cumsum([int(t[0])] + [rng.choice([1, 1, 2, 3]) for _ in t[1:]]).tolist()]
            x = [Fraction(rng.randint(-64, 64)) for _ in x]
        if rng.random() < 0.12:
            # the time axis in another unit (x 2^q: days instead of seconds, MHz sampling ...): exact in floating point; nothing in the
            # pipeline (uniformity test, grid for the filter, window) may depend on the absolute size of a time step
            q = rng.choice([-30, -30, -24, 20])
            t = [u * Fraction(2) ** q for u in t]
        o = avoid_tie(gen_opts(rng, t), t)
        meta.append((t, x, o, rng.choice(["lp", "hp", "bp", "bs"]), spell, "pl.get"))
    for t, x, o, ftype, spell, stream in meta:
        lines.append("pl.get %s | %s | %s" % (opts_line(o), " ".join(rat(v) for v in t), " ".join(rat(v) for v in x)))
    outs = drv.run(lines)
    for (t, x, o, ftype, spell, stream), out in zip(meta, outs):
        inp = dict(t=[str(v) for v in t], x=[str(v) for v in x], opts=opts_json(o), filter=ftype)
        if spell:
            inp["spell"] = spell
        chk.count(stream)
        if any(o[k] for k in o):
            chk.nontriv(repr(inp))
        chk.dist("twin=%d res=%s stages=%d%d%d" % (o["twin"] is not None, "-" if o["resample"] is None else o["resample"][0],
                                                  o["taper"], o["filter"], o["smooth"]))
        for k in sorted(spell):
            chk.dist("spelling: %s=%s" % (k, spell[k]))
        if o["resample"] is not None and o["resample"][0] == "arr":
            pts = o["resample"][1]
            chk.dist("request: %s%s" % ("sorted" if pts == sorted(pts) else "unsorted",
                                        "" if all(t[0] <= q <= t[-1] for q in pts) else
                                        (" outside-at-end" if not (t[0] <= pts[0] <= t[-1] and t[0] <= pts[-1] <= t[-1]) else " outside-interior")))
        try:
            im1, im2, bad = tagged_clauses(t, x, o, ftype, spell)
        except Exception as e:
            chk.fail("the implementation raised where the harness did not expect it (a crash is a failing clause)", inp, "no exception",
                     type(e).__name__ + ": " + str(e)[:120])
            continue
        compare_get(chk, inp, out, im1, im2, bad)
    # ---- clauses on the unpatched implementation ---------------------------------------------------------------------------------
    M = 300 if chk.quick else 5000
    lines, meta = [], []
    todo = []
    for c in corpus:
        if "opts" in c or "start" in c or c.get("real") or c.get("container") or c.get("long"):
            continue
        todo.append(([Fraction(v) for v in c["t"]], [Fraction(v) for v in c["x"]], {k: c[k] for k in CASE_KEYS if k in c}, "corpus"))
    for _ in range(M):
        t, x, xpow = gen_series_wide(rng)
        todo.append((t, x, gen_case(rng, t, x, xpow), "clauses"))
    for t, x, case, stream in todo:
        inp = dict(t=[str(v) for v in t], x=[str(v) for v in x])
        chk.count(stream)
        hist = case.get("history") or []
        ops = [step_op(h) for h in hist]
        chk.dist("history: %d steps" % len(hist))
        chk.dist("history: %s" % ("none" if not hist else "queries only" if not any(o in MUTATORS for o in ops) else
                                  "in-place changes only" if all(o in MUTATORS for o in ops) else "queries and in-place changes"))
        for o in sorted(set(ops)):
            chk.dist("history step: %s" % o)
        for h in hist:
            if step_op(h) == "bad":
                chk.dist("refused operation: %s" % h["what"])
        if any(step_op(h) != "get" and not h.get("kw") and step_op(h) in ("minima", "maxima", "get_edit") + GETKW_QUERIES for h in hist):
            chk.dist("history: a non-get query without any get-option")
        chk.dist("series: %s%s%s%s" % (case.get("series", "float"), ", data x 2^%d" % case["xpow"] if case.get("xpow") else "",
                                      ", time offset beyond 2^20" if max(abs(t[0]), abs(t[-1])) > BIG_T else "",
                                      ", %d samples" % len(t) if len(t) < 3 else ""))
        if case.get("sibling"):
            chk.dist("two series queried alternately")
        for w in case.get("wins", []):
            chk.dist("window via %s" % w.get("via", "get"))
            chk.dist("window spelled as %s" % w.get("spell", "tuple"))
        if "step_spell" in case:
            chk.dist("step spelled as %s" % case["step_spell"])
        xmul = Fraction(2) ** int(case.get("xpow", 0))
        t2, x2, ref = t, x, bool(case.get("dtg_ref"))
        try:
            for h in hist:
                t2, x2, ref = model_step(t2, x2, ref, h, xmul)
        except Exception as e:
            raise RuntimeError("corpus / generator error in history %r: %s" % (hist, e))
        if "req" in case:
            # classified on the series as stored after the history
            pts = [Fraction(v) for v in case["req"]]
            inside = [t2[0] <= q <= t2[-1] for q in pts]
            chk.dist("request: %s%s" % ("sorted" if pts == sorted(pts) else "unsorted",
                                        "" if all(inside) else (" outside-at-end" if not (inside[0] and inside[-1]) else " outside-interior")))
        try:
            ts, t2, x2, bad = direct_clauses(t, x, case)
        except Exception as e:
            chk.fail("the implementation raised where the harness did not expect it (a crash is a failing clause)",
                     fail_input(inp, case, [k for k in CASE_KEYS if k in case]), "no exception", type(e).__name__ + ": " + str(e)[:120])
            continue
        for oracle, keys, exp, obs, nsteps in bad:
            chk.fail(oracle, fail_input(inp, case, keys, nsteps), exp, obs)
        # on the object as it is after the history, against the model on the series stored then:
        # (1) stand-alone resampling: exact correspondence only for dyadic steps (np.arange's length ceil((b-a)/d) is then exact)
        base = fail_input(inp, case, [])
        if len(t2) >= 2:
            d2 = (t2[-1] - t2[0]) / rng.choice([1, 2, 4, 8]) * rng.choice([Fraction(1), Fraction(5, 4), Fraction(3, 4)])
            lines.append("pl.resample %s | %s | %s" % (rat(d2), " ".join(rat(v) for v in t2), " ".join(rat(v) for v in x2)))
            meta.append(("resample", ts, dict(base, dt=str(d2), dt_spell=rng.choice(["float", "float", "np.float64", "int", "positional"])),
                         (d2, t2[-1] - t2[0])))
        # (2) interpolation at a requested array
        if "req" in case:
            lines.append("pl.interp | %s | %s | %s" % (" ".join(rat(v) for v in t2), " ".join(rat(v) for v in x2),
                                                      " ".join(rat(Fraction(v)) for v in case["req"])))
            meta.append(("interp", ts, dict(base, req=case["req"]), (x2,)))
        # (3) a tagged request: stage order and the filter's sampling interval on an object with a past (in-place changes may have
        #     made it non-uniform since it was built)
        if len(t2) >= 3 and max(abs(t2[0]), abs(t2[-1])) <= BIG_T and not case.get("xpow"):
            o2 = gen_opts(rng, t2)
            o2["filter"] = o2["filter"] or rng.random() < 0.5
            if rng.random() < 0.4:
                o2["filter"], o2["resample"] = True, None
            o2 = avoid_tie(o2, t2)
            ftype = rng.choice(["lp", "hp", "bp", "bs"])
            lines.append("pl.get %s | %s | %s" % (opts_line(o2), " ".join(rat(v) for v in t2), " ".join(rat(v) for v in x2)))
            meta.append(("get", ts, dict(base, opts=opts_json(o2), filter=ftype), (t2, x2, o2, ftype)))
    outs = drv.run(lines)
    for (kind, ts, inp, more), out in zip(meta, outs):
        if kind == "get":
            t2, x2, o2, ftype = more
            chk.count("pl.get after a history")
            try:
                im1, im2, bad = tagged_clauses(t2, x2, o2, ftype, None, ts)
            except Exception as e:
                chk.fail("the implementation raised where the harness did not expect it (a crash is a failing clause)", inp, "no exception",
                         type(e).__name__ + ": " + str(e)[:120])
                continue
            compare_get(chk, inp, out, im1, im2, bad, "pl.get after a history")
            continue
        if kind == "interp":
            chk.count("pl.interp")
            reqf = [float(Fraction(v)) for v in inp["req"]]
            im = attempt(lambda: [float(v) for v in ts.interpolate(np.array(reqf))])
            if out.startswith("err") or isinstance(im, str):
                if not (out.startswith("err") and im == "ValueError"):
                    chk.disagree("pl.interp", inp, out, im)
                continue
            mv = [float(Fraction(v)) for v in out.split()[1:]]
            if len(mv) != len(im) or not np.allclose(mv, im, rtol=1e-11, atol=1e-11 * xscale(more[0])):
                chk.disagree("pl.interp", inp, mv[:6], im[:6])
            continue
        d, span = more
        chk.count("pl.resample")
        how = inp.get("dt_spell", "float")
        try:
            r = ts.resample(float(d)) if how == "positional" else ts.resample(dt=spell_step(d, how))
            im = [float(v) for v in r]
        except Exception as e:
            im = canon_err(e)
        if out.startswith("err") or isinstance(im, str):
            if not (out.startswith("err") and isinstance(im, str)):
                chk.disagree("pl.resample", inp, out, im)
            if isinstance(im, str) and 0 < d <= span:
                chk.fail("stand-alone resampling of the full duration to a positive step not exceeding it succeeds", inp, "values", im)
            continue
        mv = [float(Fraction(v)) for v in out.split()[1:]]
        if len(mv) != len(im) or not np.allclose(mv, im, rtol=1e-11, atol=1e-11 * xscale(mv)):
            chk.disagree("pl.resample", inp, mv[:6], im[:6])
    # ---- float exploration: stand-alone resample / step resample with decimal start / step -------------------------------------------------
    F = 1500 if chk.quick else 40000
    floats = [c for c in corpus if "start" in c]
    for _ in range(F):
        n = rng.randint(2, 60)
        dt0 = rng.choice([0.1, 0.2, 0.05, 0.3, 0.7, 0.01, 1e-3, 0.5, round(rng.uniform(0.01, 2), 2)])
        start = rng.choice([0.0, 1.0, 0.3, 100.0, round(rng.uniform(-10, 1000), 1), 1e6, 1e9 + 0.1, -12345.6])
        t = start + dt0 * np.arange(n)
        d = rng.choice([dt0, dt0 / 2, 2 * dt0, dt0 * 3, (t[-1] - t[0]) / rng.randint(1, 7), round(rng.uniform(dt0 / 3, 3 * dt0), 3), t[-1] - t[0]])
        if not (0 < d <= t[-1] - t[0]):
            continue
        c = dict(start=start, dt0=dt0, n=n, dt=float(d))
        if rng.random() < 0.2:
            c["dt_spell"] = rng.choice(["np.float64", "np.float32"])
            if c["dt_spell"] == "np.float32" and not (0 < float(np.float32(d)) <= t[-1] - t[0]):
                del c["dt_spell"]
        floats.append(c)
    for c in floats:
        chk.count("float-resample")
        inp = {k: c[k] for k in ("start", "dt0", "n", "dt", "dt_spell") if k in c}
        try:
            bad = float_case(inp)
        except Exception as e:
            bad = [("the implementation raised where the harness did not expect it (a crash is a failing clause)", "no exception",
                    type(e).__name__ + ": " + str(e)[:120])]
        for oracle, exp, obs in bad:
            chk.fail(oracle, inp, exp, obs)
    # ---- the stage functions as they are: every stage combination, the stages' own parameter ranges, several requests per object ----------
    R = 500 if chk.quick else 8000
    reals = [c for c in corpus if c.get("real")] + [gen_real(rng) for _ in range(R)]
    for c in reals:
        chk.count("real-stages")
        inp = {k: c[k] for k in ("real", "t", "x", "requests")}
        for r in c["requests"]:
            st = real_stages(r)
            chk.dist("real stages: %s" % ("+".join(st) or "none"))
            if st:
                chk.nontriv("real %r %r" % (c["t"][:3], r))
            wl = r.get("window_len")
            if isinstance(wl, int):
                chk.dist("smoothing window length: %s" % ("0 / 1 / 2 (nothing to smooth)" if wl < 3 else "even" if wl % 2 == 0 else "odd"))
                chk.dist("smoothing window function: %s" % r.get("window", "default"))
            if r.get("filterargs"):
                chk.dist("real filter: %s" % r["filterargs"][0])
            if r.get("via"):
                chk.dist("real request via %s" % r["via"])
        try:
            bad = real_clauses(inp)
        except Exception as e:
            bad = [("the implementation raised where the harness did not expect it (a crash is a failing clause)", "no exception",
                    type(e).__name__ + ": " + str(e)[:120], len(c["requests"]) - 1)]
        for oracle, exp, obs, idx in bad:
            chk.fail(oracle, dict(inp, requests=c["requests"][:idx + 1]), exp, obs)
    # ---- requests naming several series (different spans) with one window: app.funcs.calculate_trace / calculate_gumbel_fit, TsDB.getda ----
    C = 120 if chk.quick else 2500
    conts = [c for c in corpus if c.get("container")] + [gen_container(rng) for _ in range(C)]
    for c in conts:
        chk.count("containers")
        inp = {k: c[k] for k in ("container", "series", "requests")}
        spans = sorted({(s["t"][0], s["t"][-1]) for s in c["series"]})
        chk.dist("container: %d series, %s" % (len(c["series"]), "one span" if len(spans) == 1 else "different spans"))
        for r in c["requests"]:
            chk.dist("container request via %s" % r.get("via", "trace"))
            chk.dist("container window: %s%s" % (r.get("window", "given"), ", filtered" if r.get("fargs") else ""))
            cut = [s["name"] for s in c["series"] if s["name"] in r["names"] and (r["twin"][0] > s["t"][0] or r["twin"][1] < s["t"][-1])]
            if len(spans) > 1 and len(r["names"]) > 1:
                chk.nontriv("container %r %r" % (spans, {k: r[k] for k in ("via", "names", "twin")}))
            chk.dist("container window crops %s of the named series" % ("none" if not cut else "all" if len(cut) == len(r["names"]) else "some"))
        try:
            bad = container_clauses(inp)
        except Exception as e:
            bad = [("the implementation raised where the harness did not expect it (a crash is a failing clause)", "no exception",
                    type(e).__name__ + ": " + str(e)[:120], len(c["requests"]) - 1)]
        for oracle, exp, obs, idx in bad:
            chk.fail(oracle, dict(inp, requests=c["requests"][:idx + 1]), exp, obs)
    # ---- long records (999 .. 131073 samples): the clauses where a blocked / vectorised variant of the pipeline would err -----------------
    c11_long.run_long(chk, {"real_clauses": real_clauses, "Tags": Tags}, corpus)
    chk.sample(dict(t=[0, 1, 2, 3, 4], x=[0, 1, 4, 9, 16], opts="twin=(1,3) taper filter", model=[[1, 2, 3], [5, 11, 21]]))
    chk.sample(dict(t="0, 0.5, ... 20 (41 samples)", requests=[dict(twin=[2.0, 18.0], taperfrac=0.1, window_len=6, window="hanning")],
                    expected="33 time samples and 33 data samples; the same data as smoothing the tapered window asked from a second series"))
    chk.sample(dict(t=[0, 1, 2, 3, 4], x=[0, 1, 4, 9, 16], req=[1, 5, 2], expected="raises (5 is outside the stored span)"))
    chk.sample(dict(t=[0, 1, 2, 3, 4], x=[0, 1, 4, 9, 16], history=[{"taperfrac": 0.1}], then="get()", expected=[[0, 1, 2, 3, 4], [0, 1, 4, 9, 16]]))
    chk.sample(dict(t=[0, 1, 2, 3, 4], x=[0, 1, 4, 9, 16], history=[{"op": "minima"}], then="get(twin=(1, 3))", expected=[[1, 2, 3], [1, 4, 9]]))
    chk.sample(dict(t=[0, 1, 2, 3, 4], x=[0, 1, 4, 9, 16], dtg_ref=True,
                    history=[{"op": "interpolate", "at": [0.5]}, {"op": "set_dtg_ref", "shift": "15/2"}], then="get(resample=[8.0])",
                    expected=[[8.0], [0.5]], note="the stored times are now 7.5 .. 11.5"))
    chk.sample(dict(t=[0, 1, 2, 3, 4], x=[0, 1, 4, 9, 16], wins=[{"a": "1", "b": "inf", "spell": "list", "via": "geta"}],
                    expected=[[1, 2, 3, 4], [1, 4, 9, 16]], note="TsDB.geta('s', twin=[1.0, inf])"))


def replay(rp):
    inp = rp["input"]
    if isinstance(inp, dict) and str(inp.get("kind", "")).startswith("sm-"):
        return c11_smooth.replay_smooth(rp)
    bad = 0
    if isinstance(inp, dict) and inp.get("long"):
        return c11_long.replay_long(rp, {"real_clauses": real_clauses, "Tags": Tags})
    if "start" in inp:
        for oracle, exp, obs in float_case(inp):
            print("FAILS:", oracle, "| expected", exp, "| observed", obs)
            bad += 1
    elif inp.get("container"):
        for oracle, exp, obs, idx in container_clauses(inp):
            print("FAILS (request %d: %r):" % (idx, inp["requests"][idx]), oracle, "| expected", exp, "| observed", obs)
            bad += 1
    elif inp.get("real"):
        for oracle, exp, obs, idx in real_clauses(inp):
            print("FAILS (request %d: %r):" % (idx, inp["requests"][idx]), oracle, "| expected", exp, "| observed", obs)
            bad += 1
    elif "opts" in inp and "history" not in inp and not any(k in inp for k in ("series", "xpow", "dtg_ref")):
        # tagged pipeline run (stage functions replaced by the tag functions, as in the check)
        t = [Fraction(v) for v in inp["t"]]
        x = [Fraction(v) for v in inp["x"]]
        o = opts_unjson(inp["opts"])
        im1, im2, fails = tagged_clauses(t, x, o, inp.get("filter", "lp"), inp.get("spell"))
        for nth, im in (("first call", im1), ("same call repeated", im2)):
            print(nth, "->", im[0] if im[0] != "ok" else [im[1].tolist()[:8], im[2].tolist()[:8]])
        for oracle, exp, obs in fails:
            print("FAILS:", oracle, "| expected", exp, "| observed", obs)
            bad += 1
    else:
        t = [Fraction(v) for v in inp["t"]]
        x = [Fraction(v) for v in inp["x"]]
        case = {k: inp[k] for k in CASE_KEYS if k in inp}
        if "q" in inp:      # replay files written before `qs`
            case["qs"] = [inp["q"]]
        ts, t, x, fails = direct_clauses(t, x, case)
        if case.get("history"):
            print("series stored after the history:", [float(v) for v in t][:8], [float(v) for v in x][:8])
        for oracle, keys, exp, obs, nsteps in fails:
            print("FAILS:", oracle, "| expected", exp, "| observed", obs)
            bad += 1
        if "opts" in inp:
            # tagged request on the object after its history
            o = opts_unjson(inp["opts"])
            im1, im2, fails = tagged_clauses(t, x, o, inp.get("filter", "lp"), None, ts)
            for nth, im in (("first call", im1), ("same call repeated", im2)):
                print(nth, "->", im[0] if im[0] != "ok" else [im[1].tolist()[:8], im[2].tolist()[:8]])
            for oracle, exp, obs in fails:
                print("FAILS:", oracle, "| expected", exp, "| observed", obs)
                bad += 1
        if "dt" in inp:
            d = Fraction(inp["dt"])
            how = inp.get("dt_spell", "float")
            try:
                r = ts.resample(float(d)) if how == "positional" else ts.resample(dt=spell_step(d, how))
                print("resample(dt=%s) ->" % d, np.asarray(r).tolist()[:8])
            except Exception as e:
                print("resample(dt=%s) raises" % d, type(e).__name__, e)
                if 0 < d <= t[-1] - t[0]:
                    print("FAILS: stand-alone resampling of the full duration to a positive step not exceeding it succeeds")
                    bad += 1
    print("replay: %d failing clause(s)" % bad)
    return 1 if bad else 0
