"""
C13 — power spectral density is a one-sided density in Hz consistent with variance.

Tie: Float correspondence of the explicit-DFT Lean model (`Qats.Welch`) with `qats.signal.psd`, `TimeSeries.psd`,
`app.funcs.calculate_psd` (and the resampled / tapered signal of the GUI path) on seeded short signals (n <= 256) over
many `dt`, `nperseg`, `noverlap`, `nfft`, time-step jitter and error cases; tolerance 1e-9 of the spectrum's peak.
Search: the property's clauses on the implementation alone: independent numpy implementation of Welch's definition,
frequency grid, a^2 scaling, invariance to a constant, change of time unit (density in Hz), normalised maximum 1,
default segment, uniformity guard, non-negativity, GUI clip of `nperseg`; area = variance and peak location on long
stationary multi-tone signals (measurements with stated tolerances). The same clauses after every step of operation
histories on long-lived objects (requests interleaved with updates of the series' data, modify, copies): the spectrum is
that of the data the series holds at the time of the request.

Exact area identity (`parseval` cases; Lean: Parseval's identity with one-sided folding, over the reals): for seeded signals of
even and odd length, one segment (`nperseg = n`) or several (default / explicit half overlap, other overlaps, zero padding
`nfft > nperseg`), `sum(P) * df` of `signal.psd` and of `TimeSeries.psd` against the mean over the segments of
`sum((w*y)^2)/sum(w^2)` (scipy's Hann window, y = segment - mean) to 1e-9 relative (`oracles:parseval`), and the model's two
sides (`psd.area`, driver op of `Qats.Welch.welchArea`) against the implementation's two sides (n <= 256).

Input classes generated on purpose (audit after three rounds of seeded changes):
* spelling: x as list / tuple / integer array / int32 / strided and reversed views / read-only array, dt as python int, numpy
  scalars, 0-d array; arguments positional / by keyword / omitted / welch's defaults written out; nperseg as numpy integer;
  normalize as int / numpy bool; series names and container keys that differ (and contain `%`, `{}`, brackets, a path);
* boundaries: empty / 1 / 2 samples, default segment for n = 1..8, nperseg = n, n +- 1, noverlap = nperseg - 1, signals in other
  units (x 2^+-200, 2^-60), time axis in other units (x 2^+-30, 60, 0.001), single deviating time steps (a dropped sample,
  +-0.4 % / +-0.6 % pairs), options that are given but do nothing, windows ending exactly on samples;
* processing options of TimeSeries.psd (twin, resample, filterargs, taperfrac, window_len; `tsopt`) and the GUI path with time
  window / filter arguments on containers of several series (`guiopt`): compared with the definition applied to the series
  `get()` returns for the spelled-out options (a reference that does not run through psd / calculate_psd), and tied to the Lean
  model by running `psdTs` on the processed arrays;
* entry points: TimeSeries.plot_psd and TsDB.plot_psd (the curves drawn, Agg backend);
* histories: the time axis rewritten in place, the GUI path with filters on long-lived objects (against the spelled-out chain,
  not only against a new object), `signal.psd` called repeatedly on ONE array object the caller changes between the calls;
* an exception while the clauses are evaluated is a failing clause (`safe_evaluate`);
* fault points (round 6): `guifault` = ONE container of 2-4 series (own step / start / length, the victim at any position) and a
  sequence of calculate_psd requests of which some cannot be fulfilled for one series (cut-off between the Nyquist frequencies of
  two series / exactly at one, a window holding one or none of the victim's samples, record too short for the filter) or for all
  (unknown filter, wrong number of cut-offs, cut-off 0, segment 0): the call raises or leaves that series out — every spectrum
  handed back is compared with the spelled-out chain of ITS series; ordinary requests follow on the same objects (whole container,
  sub-containers in another order), and the series' data are unchanged; `history+faults` = copies of the generated histories with
  rejected psd / get / modify / calculate_psd requests inserted. All of these calls run in a worker thread under a time limit
  ("the query returns").
"""
import math
import os
import random

import numpy as np

from .. import core
from ..core import fbits, unfbits

RULE = ("short: seeded signals of 1..256 samples (gaussian, tones, ramps, constants, spikes; offsets up to 1e3) x dt in "
        "{0.01..3.7, random} x nperseg (None, 1, odd/even, > n) x noverlap (None, 0, up to nperseg-1, invalid) x nfft (None, "
        ">= nperseg, invalid) x time-step jitter (0, 0.3 %, 2-10 %) x normalize; long: stationary sums of 1-4 sinusoids "
        "(>= 5 bins apart, dominant one >= 3x the others) + optional white noise, 512..8192 samples, dt in {0.05..2}; "
        "histories: 1-6 requests (TimeSeries.psd incl. window / resampling options, calculate_psd; identical requests repeated) on "
        "the same object interleaved with data updates through the public interface (x assigned / changed in place: scaled, "
        "shifted, replaced by another signal, single samples; modify(twin / resample); copy(), copy.copy, re-construction from "
        "the object's arrays and switching between the objects; read-only calls), short (16..200 samples) and long stationary "
        "(1024..4096, area and peak after every update); "
        "spelling of every request drawn from: container / number type of x, t, dt, nperseg, normalize; positional / keyword / omitted / "
        "explicit-default arguments; names and keys; amplitudes x 2^+-200, time units x 2^+-30; tsopt: 24..1024 samples x 1-3 of "
        "{twin (whole / on samples / inside), resample (incl. the series' own step), filterargs (lp hp bp bs), taperfrac (0, .1, .25, .5, 1), "
        "window_len (1, 3, 5)} x nperseg (default = quarter of the processed series) / noverlap / nfft x normalize x repeated request; "
        "guiopt: containers of 1-3 series (own length, step, jitter; one object under two keys) x twin x fargs x nperseg (1..100000, n, n+-1) "
        "x repeated call; plot: TimeSeries.plot_psd / TsDB.plot_psd (names, options); sighist: 3-11 steps on one ndarray (psd with its own "
        "dt / segment settings; in-place scale, shift, replace, single sample); guard: single deviating steps; "
        "guifault: one container of 2-4 series (own dt / start / length / jitter, victim first / middle / last) x 2-6 calculate_psd calls on the "
        "same objects: ordinary | rejected for one series (lp hp bp bs cut-off between / at / above Nyquist frequencies, window with 1 / 0 samples "
        "of the victim, record too short for the filter) | rejected for all (bad filter name / count / 0, nperseg 0) | repeated | sub-container in "
        "another order; history+faults: generated histories with 1-3 rejected requests inserted (psd / get / modify / calculate_psd: cut-off beyond "
        "Nyquist, bad filter, window outside the record, resample of a wrong type, unknown keyword, nperseg <= 0, noverlap >= nperseg, nfft < nperseg, "
        "detrend name); "
        "non-trivial = non-constant signal averaged over >= 2 segments, or a history with >= 2 requests and a data update, or a processed / container case; "
        "distinct by the full case")

DTS = [0.01, 0.1, 0.25, 0.5, 1.0, 2.0, 3.7]
AMPS = [-2.5, 0.3, 7.0, -2.5, 0.3, 7.0, 2.0 ** 200, 2.0 ** -200, -2.0 ** -60]      # other units of the same signal
GUARD_MSG = "varies with more than 1%"


# ----------------------------------------------------------------------------------------------------------
# signals
# ----------------------------------------------------------------------------------------------------------
def materialise(sig):
    """(t, x) of a signal recipe; every random choice comes from seeds stored in the recipe"""
    if "x" in sig:
        x = np.array(sig["x"], dtype=float)
        if "t" in sig:
            return np.array(sig["t"], dtype=float), x
        return sig.get("t0", 0.0) + sig["dt"] * np.arange(x.size), x
    n, dt = sig["n"], sig["dt"]
    jit = sig.get("jitter")
    outl = sig.get("outliers") if n > 1 else None
    if (jit and jit["amp"] > 0 and n > 1) or outl:
        if jit and jit["amp"] > 0:
            r = random.Random(jit["seed"])
            steps = np.array([dt * (1.0 + jit["amp"] * r.uniform(-1, 1)) for _ in range(n - 1)])
        else:
            steps = np.full(n - 1, float(dt))
        for i, fac in outl or []:                      # single deviating steps (a dropped sample, a late sample)
            steps[i % (n - 1)] *= fac
        t = sig.get("t0", 0.0) + np.concatenate([[0.0], np.cumsum(steps)])
    else:
        t = sig.get("t0", 0.0) + dt * np.arange(n)
    x = np.full(n, float(sig.get("offset", 0.0)))
    for a, f, ph in sig.get("tones", []):
        x = x + a * np.sin(2 * np.pi * f * t + ph)
    if sig.get("slope"):
        x = x + sig["slope"] * (t - t[0])
    if sig.get("noise_sd", 0) > 0:
        r = random.Random(sig["noise_seed"])
        x = x + np.array([r.gauss(0, sig["noise_sd"]) for _ in range(n)])
    for i, v in sig.get("spikes", []):
        if i < n:
            x[i] += v
    if "gain" in sig:                                  # the same signal in another unit (exact for powers of two)
        x = x * sig["gain"]
    return t, x


def ref_welch(x, dt, nperseg=None, noverlap=None, nfft=None):
    """Independent implementation of the definition: Welch's averaged, Hann-windowed, mean-removed one-sided density"""
    x = np.asarray(x, dtype=float)
    n = x.size
    if n == 0:
        return np.array([]), np.array([])
    nps = 256 if nperseg is None else int(nperseg)
    if nps < 1:
        raise ValueError("nperseg")
    nps = min(nps, n)
    nf = nps if nfft is None else int(nfft)
    if nf < nps:
        raise ValueError("nfft")
    nov = nps // 2 if noverlap is None else int(noverlap)
    if nov >= nps:
        raise ValueError("noverlap")
    hop = nps - nov
    w = 0.5 - 0.5 * np.cos(2 * np.pi * np.arange(nps) / nps) if nps > 1 else np.ones(1)
    acc, cnt = np.zeros(nf // 2 + 1), 0
    for s in range(0, n - nps + 1, hop):
        seg = x[s:s + nps]
        acc += np.abs(np.fft.rfft((seg - seg.mean()) * w, nf)) ** 2
        cnt += 1
    p = acc / cnt * dt / np.sum(w * w)
    if nf % 2 == 0:
        p[1:-1] *= 2
    else:
        p[1:] *= 2
    return np.arange(nf // 2 + 1) / (nf * dt), p


def ref_ts(t, x, nperseg, noverlap, nfft, normalize):
    """the definition applied to a series: mean step, default segment n // 4, guard, normalisation"""
    d = np.diff(t)
    if d.size == 0:
        raise ValueError("empty")
    if abs(d.min() - d.max()) > 1e-6 + 1e-2 * abs(d.max()):
        raise ValueError(GUARD_MSG)
    f, p = ref_welch(x, float(np.mean(d)), x.size // 4 if nperseg is None else nperseg, noverlap, nfft)
    return f, (p / np.max(p) if normalize else p)


# ----------------------------------------------------------------------------------------------------------
# implementation calls
# ----------------------------------------------------------------------------------------------------------
def _integral(a):
    a = np.asarray(a, dtype=float)
    return bool(a.size == 0 or (np.all(np.isfinite(a)) and np.all(a == np.round(a)) and float(np.max(np.abs(a))) < 2.0 ** 31))


def spell_array(a, kind):
    """the same numbers in another container / number type (class: spelling of the same thing)"""
    a = np.asarray(a, dtype=float)
    if kind == "list":
        return [float(v) for v in a]
    if kind == "tuple":
        return tuple(float(v) for v in a)
    if kind == "int":                                   # integer ndarray when the values are integers
        return a.astype(np.int64) if _integral(a) else a
    if kind == "int32":
        return a.astype(np.int32) if _integral(a) else a
    if kind == "intlist":
        return [int(v) for v in a] if _integral(a) else [float(v) for v in a]
    if kind == "view":                                  # strided view into a larger buffer
        buf = np.full(2 * a.size + 1, 1e30)
        v = buf[1::2]
        v[:] = a
        return v
    if kind == "rev":                                   # negative stride
        return a[::-1].copy()[::-1]
    if kind == "readonly":
        b = a.copy()
        b.flags.writeable = False
        return b
    return a.copy()


def spell_scalar(v, kind):
    if kind == "np.float64":
        return np.float64(v)
    if kind == "int" and float(v) == int(v):
        return int(v)
    if kind == "np.int64" and float(v) == int(v):
        return np.int64(int(v))
    if kind == "0d":
        return np.array(float(v))
    return v


def spell_n(v, kind):
    return np.int64(v) if (kind == "np.int64" and v is not None) else v


EXPLICIT_DEFAULTS = dict(window="hann", detrend="constant", scaling="density", return_onesided=True, axis=-1, average="mean")


def call(case, t=None, x=None, dt_factor=1.0):
    """run the implementation; ("ok", f, p) or ("err", kind). `case["spell"]` selects container / number types of the
    arrays and scalars and the way the arguments are passed (defaults: float ndarrays, keywords)."""
    from qats import TimeSeries
    from qats.signal import psd
    from qats.app.funcs import calculate_psd
    if t is None:
        t, x = materialise(case["sig"])
    api = case["api"]
    sp = case.get("spell") or {}
    kw = {k: spell_n(case[k], sp.get("n")) for k in ("nperseg", "noverlap", "nfft") if case.get(k, "absent") != "absent"}
    style = sp.get("args", "kw")
    try:
        if api == "signal":
            xs = spell_array(x, sp.get("x", "ndarray"))
            dts = spell_scalar(case["sig"]["dt"] * dt_factor, sp.get("dt"))
            if style == "omit":
                kw = {k: v for k, v in kw.items() if v is not None}
            elif style == "explicit":
                kw = dict(EXPLICIT_DEFAULTS, **kw)
            for _ in range(2 if sp.get("repeat") else 1):       # the second call on the same array object counts
                if style == "dtkw":
                    f, p = psd(xs, dt=dts, **kw)
                elif style == "allkw":
                    f, p = psd(x=xs, dt=dts, **kw)
                else:
                    f, p = psd(xs, dts, **kw)
        else:
            ts = TimeSeries(sp.get("name", "a"), spell_array(t, sp.get("t", "ndarray")), spell_array(x, sp.get("x", "ndarray")))
            norm = case.get("normalize", False)
            norm = {"int": int(bool(norm)), "np.bool": np.bool_(norm)}.get(sp.get("norm"), norm)
            if api == "ts":
                if style == "pos":
                    f, p = ts.psd(kw.get("nperseg"), kw.get("noverlap"), "constant", kw.get("nfft"), norm)
                elif style == "omit":
                    kw = {k: v for k, v in kw.items() if v is not None}
                    f, p = ts.psd(**kw) if not norm else ts.psd(normalize=norm, **kw)
                elif style == "explicit":
                    f, p = ts.psd(detrend="constant", normalize=norm, twin=None, resample=None, filterargs=None, taperfrac=None, **kw)
                else:
                    f, p = ts.psd(normalize=norm, **kw)
            else:
                key = sp.get("key", "a")
                tw = case.get("twin")
                tw = (tw if sp.get("twin") == "list" else tuple(tw)) if tw else None
                nps = spell_n(case["nperseg"], sp.get("n"))
                if style == "kwcall":
                    out = calculate_psd(container={key: ts}, twin=tw, fargs=None, nperseg=nps, normalize=norm)
                else:
                    out = calculate_psd({key: ts}, tw, None, nps, norm)
                if list(out.keys()) != [key]:
                    return ("err", "keys:" + repr(list(out.keys())))
                f, p = out[key]
        return ("ok", np.asarray(f, dtype=float), np.asarray(p, dtype=float))
    except ValueError as e:
        return ("err", "guard" if GUARD_MSG in str(e) else "value")
    except Exception as e:  # noqa
        return ("err", "exc:" + type(e).__name__)


def pick_spell(rng, api, plain=0.45):
    """how the same request is spelled (None: float ndarrays and keyword arguments as before)"""
    if rng.random() < plain:
        return None
    sp = {}
    if api == "signal":
        sp["x"] = rng.choice(["ndarray", "list", "tuple", "int", "int32", "intlist", "view", "rev", "readonly"])
        sp["dt"] = rng.choice(["float", "np.float64", "int", "np.int64", "0d"])
        sp["args"] = rng.choice(["kw", "dtkw", "allkw", "explicit", "omit"])
        sp["repeat"] = rng.random() < 0.4
    else:
        sp["x"] = rng.choice(["ndarray", "int", "int32", "view", "rev", "readonly"])
        sp["t"] = rng.choice(["ndarray", "int", "view", "readonly"])
        sp["name"] = rng.choice(["a", "Tension [kN]", "100%s {x} %d", "psd"])
        sp["norm"] = rng.choice(["bool", "int", "np.bool"])
        if api == "ts":
            sp["args"] = rng.choice(["kw", "pos", "omit", "explicit"])
        else:
            sp["args"] = rng.choice(["pos", "kwcall"])
            sp["key"] = rng.choice(["a", "a", "dir/file.ts\\Tension [kN]", "other-than-name"])
            sp["twin"] = rng.choice(["tuple", "list"])
    sp["n"] = rng.choice(["int", "np.int64"])
    return sp


def scale_of(p, x, dt):
    """magnitude against which density differences are judged (peak of the spectrum; rounding floor of the signal)"""
    ms = float(np.mean(np.square(x))) if len(x) else 0.0
    pm = float(np.nanmax(p)) if len(p) and not np.all(np.isnan(p)) else 0.0
    return max(pm, 1e-12 * abs(dt) * ms, 1e-300)


def is_noise(plain, x, dt):
    """the (not normalised) spectrum is rounding noise of a constant signal"""
    if plain[0] != "ok" or plain[2].size == 0:
        return False
    ms = float(np.mean(np.square(x)))
    return not (float(np.nanmax(plain[2])) > 1e-18 * abs(dt) * ms) if not np.all(np.isnan(plain[2])) else True


def same(p, q, tol):
    p, q = np.asarray(p, dtype=float), np.asarray(q, dtype=float)
    if p.shape != q.shape:
        return False
    nn = np.isnan(p) | np.isnan(q)
    if np.any(np.isnan(p) != np.isnan(q)):
        return False
    return bool(np.all(np.abs(p[~nn] - q[~nn]) <= tol))


def brief(a, k=6):
    a = np.asarray(a, dtype=float)
    return [float(v) for v in a[:k]] + (["... (%d values)" % a.size] if a.size > k else [])


# ----------------------------------------------------------------------------------------------------------
# the property's clauses on the implementation
# ----------------------------------------------------------------------------------------------------------
def evaluate(case):
    """list of (clause, expected, observed) that fail for this case"""
    if case.get("api") in DISPATCH:
        return DISPATCH[case["api"]](case)
    bad = []
    t, x = materialise(case["sig"])
    api = case["api"]
    n = x.size
    r = call(case, t, x)
    checks = case.get("checks", [])
    norm = bool(case.get("normalize", False))
    dt = case["sig"]["dt"] if api == "signal" else (float(np.mean(np.diff(t))) if n > 1 else float("nan"))

    # -- which outcome does the definition prescribe? -------------------------------------------------------------
    if "definition" in checks:
        try:
            if api == "signal":
                ref = ("ok",) + ref_welch(x, dt, case.get("nperseg"), case.get("noverlap"), case.get("nfft"))
            else:
                ref = ("ok",) + ref_ts(t, x, case.get("nperseg"), case.get("noverlap"), case.get("nfft"), norm)
        except ValueError as e:
            ref = ("err", "guard" if GUARD_MSG in str(e) else "value")
        if ref[0] != r[0] or (ref[0] == "err" and ref[1] != r[1]):
            bad.append(("outcome (spectrum / ValueError of the argument checks / time-step error) is the one the definition "
                        "prescribes", ref[:2] if ref[0] == "err" else "spectrum", r[:2] if r[0] == "err" else "spectrum"))
        elif r[0] == "ok" and not (norm and is_noise(call(dict(case, normalize=False), t, x), x, dt)):
            sc = 1.0 if norm else scale_of(ref[2], x, dt)
            if not same(r[1], ref[1], 1e-12 * max(1e-300, float(np.max(np.abs(ref[1]))) if ref[1].size else 0.0)):
                bad.append(("frequencies equal k/(nfft*dt), k = 0..nfft//2", brief(ref[1]), brief(r[1])))
            elif not same(r[2], ref[2], 1e-9 * sc):
                bad.append(("densities equal the independent implementation of Welch's Hann-windowed, mean-removed, one-sided "
                            "density (1e-9 of the peak)", brief(ref[2]), brief(r[2])))
    if "guard_reject" in checks and r != ("err", "guard"):
        bad.append(("a time step varying by more than 1 % is rejected with the time-step ValueError", "err guard",
                    r[:2] if r[0] == "err" else "spectrum"))
    if "guard_accept" in checks and r[0] == "err" and r[1] == "guard":
        bad.append(("a time step varying by less than 0.5 % is accepted", "no time-step error", "err guard"))
    if r[0] != "ok":
        if "ok" in checks:
            bad.append(("the call succeeds for this input", "spectrum", list(r)))
        return bad
    f, p = r[1], r[2]
    sc = 1.0 if norm else scale_of(p, x, dt)
    if norm and is_noise(call(dict(case, normalize=False), t, x), x, dt):
        # a normalised spectrum of pure rounding noise (constant signal) is noise/noise: nothing to compare
        checks = [c for c in checks if c not in ("scale", "shift", "normalised")]

    # -- frequency grid ---------------------------------------------------------------------------------------------
    if "grid" in checks and n > 0:
        nps = case.get("nperseg")
        nps = (256 if api == "signal" else n // 4) if nps is None else nps
        nps = min(nps, n)
        nf = case.get("nfft") or nps
        exp = np.arange(nf // 2 + 1) / (nf * dt)
        if f.size != nf // 2 + 1 or p.size != f.size:
            bad.append(("nfft//2 + 1 frequencies and as many densities", nf // 2 + 1, [int(f.size), int(p.size)]))
        elif f[0] != 0.0 or not same(f, exp, 1e-12 * float(np.max(np.abs(exp))) + 1e-300):
            bad.append(("frequencies run from 0 in steps of 1/(nfft*dt), dt = (mean) time step", brief(exp), brief(f)))
        elif nf % 2 == 0 and abs(f[-1] - 0.5 / dt) > 1e-12 * 0.5 / dt:
            bad.append(("last frequency is the Nyquist frequency 1/(2 dt) for even nfft", 0.5 / dt, float(f[-1])))
    if "nonneg" in checks and not np.all(p[~np.isnan(p)] >= 0):
        bad.append(("densities are non-negative", ">= 0", float(np.nanmin(p))))

    # -- amplitude scaling, constant offset, time unit ----------------------------------------------------------------
    if "scale" in checks:
        a = case.get("a", -2.5)
        r2 = call(case, t, a * x)
        exp = p if norm else a * a * p
        tol = 1e-9 * (1.0 if norm else a * a * sc)
        if r2[0] != "ok" or not same(r2[2], exp, tol) or not same(r2[1], f, 0.0):
            bad.append(("multiplying the signal by a = %r multiplies the densities by a^2 (normalised: leaves them unchanged)" % a,
                        brief(exp), brief(r2[2]) if r2[0] == "ok" else list(r2)))
    if "shift" in checks:
        c = case.get("c", 1000.0)
        r2 = call(case, t, x + c)
        if r2[0] != "ok" or not same(r2[2], p, 1e-8 * (sc if norm else max(sc, 1e-12 * abs(dt) * c * c))) or not same(r2[1], f, 0.0):
            bad.append(("adding the constant %r to the signal leaves the spectrum unchanged (1e-8 of the peak)" % c, brief(p),
                        brief(r2[2]) if r2[0] == "ok" else list(r2)))
    if "timeunit" in checks and api == "signal":
        k = case.get("k", 60.0)
        r2 = call(case, t, x, dt_factor=k)
        if r2[0] != "ok" or not same(r2[1] * k, f, 1e-12 * (float(np.max(np.abs(f))) if f.size else 0.0) + 1e-300) or not same(r2[2] / k, p, 1e-12 * sc):
            bad.append(("changing the time unit (dt -> %r dt) divides the frequencies and multiplies the densities by %r "
                        "(a density per Hz: the area does not depend on the unit)" % (k, k), brief(p * k),
                        brief(r2[2]) if r2[0] == "ok" else list(r2)))

    if "timeunit" in checks and api in ("ts", "gui") and n > 1 and not case.get("twin"):
        # the same record with its time axis in another unit (uniformly sampled series only: the guard's absolute
        # tolerance and the GUI's interpolation are not unit-free for a varying step)
        k = case.get("k", 60.0)
        r2 = call(case, k * t, x)
        if r2[0] != "ok" or not same(r2[1] * k, f, 1e-9 * float(np.max(np.abs(f))) + 1e-300) or \
                not same(r2[2] if norm else r2[2] / k, p, 1e-9 * sc):
            bad.append(("expressing the time axis in another unit (t -> %r t) divides the frequencies by %r and multiplies the "
                        "densities by it (normalised: unchanged): a density per Hz of the series' own time step" % (k, k),
                        brief(p if norm else p * k), brief(r2[2]) if r2[0] == "ok" else list(r2)))

    # -- normalisation, defaults, clip ----------------------------------------------------------------------------------
    if "normalised" in checks and api != "signal":
        c2 = dict(case, normalize=True)
        c3 = dict(case, normalize=False)
        rn, rp = call(c2, t, x), call(c3, t, x)
        if rn[0] == "ok" and rp[0] == "ok" and np.max(rp[2]) > 0:
            if np.max(rn[2]) != 1.0 or not same(rn[2] * np.max(rp[2]), rp[2], 1e-12 * float(np.max(rp[2]))) or not same(rn[1], rp[1], 0.0):
                bad.append(("the normalised spectrum is the spectrum divided by its maximum: maximum exactly 1, same frequencies",
                            1.0, float(np.max(rn[2]))))
        elif rn[0] != rp[0]:
            bad.append(("normalize=True succeeds exactly when normalize=False does", rp[0], rn[0]))
    if "default" in checks and api == "ts":
        rd = call(dict(case, nperseg="absent", noverlap="absent", nfft="absent"), t, x)
        rq = call(dict(case, nperseg=n // 4, noverlap="absent", nfft="absent"), t, x)
        if rd[0] != rq[0] or (rd[0] == "ok" and (rd[1].size != (n // 4) // 2 + 1 or not np.array_equal(rd[1], rq[1])
                                                or not np.array_equal(rd[2], rq[2], equal_nan=True))):
            bad.append(("the default segment is a quarter of the signal: psd() == psd(nperseg=n//4), (n//4)//2 + 1 frequencies",
                        (n // 4) // 2 + 1, int(rd[1].size) if rd[0] == "ok" else list(rd)))
    if "clip" in checks and api == "gui":
        rc = call(dict(case, nperseg=case["nperseg"] + n + 7), t, x)
        rn = call(dict(case, nperseg=n), t, x)
        if rc[0] != rn[0] or (rc[0] == "ok" and not (np.array_equal(rc[1], rn[1]) and np.array_equal(rc[2], rn[2], equal_nan=True))):
            bad.append(("a segment length above the series length is clipped to the series length", brief(rn[2]) if rn[0] == "ok" else list(rn),
                        brief(rc[2]) if rc[0] == "ok" else list(rc)))

    # -- measurements on stationary signals --------------------------------------------------------------------------------
    if "area" in checks and not norm:
        var = float(np.var(x))
        area = float(np.trapezoid(p, f))
        lo, hi = (0.92, 1.03) if api == "gui" else (0.97, 1.03)
        if not (lo * var <= area <= hi * var):
            bad.append(("the area under the density reproduces the variance of the stationary signal (within %d %% / +3 %%%s)"
                        % (round((1 - lo) * 100), "; the GUI's 10 % taper removes up to 6.25 %" if api == "gui" else ""), var, area))
    if "peak" in checks:
        f0 = case["sig"]["tones"][0][1]
        df = float(f[1] - f[0])
        fp = float(f[int(np.nanargmax(p))])
        if abs(fp - f0) > 1.0 * df:
            bad.append(("the spectrum peaks at the frequency of the dominant sinusoid (within one frequency step)", f0, fp))
    return bad


# ----------------------------------------------------------------------------------------------------------
# operation histories on long-lived objects
# ----------------------------------------------------------------------------------------------------------
def _errkind(e):
    if isinstance(e, ValueError):
        return ("err", "guard" if GUARD_MSG in str(e) else "value")
    return ("err", "exc:" + type(e).__name__)


def _opts(st):
    return {k: (tuple(v) if isinstance(v, list) else v) for k, v in (st.get("options") or {}).items()}


def call_obj(ts, st):
    """one spectrum request (TimeSeries.psd or the GUI's calculate_psd) on an existing object"""
    from qats.app.funcs import calculate_psd
    try:
        if st["op"] == "psd":
            f, p = ts.psd(nperseg=st.get("nperseg"), noverlap=st.get("noverlap"), nfft=st.get("nfft"),
                          normalize=bool(st.get("normalize", False)), **_opts(st))
        else:
            tw, fa = st.get("twin"), st.get("fargs")
            f, p = calculate_psd({"a": ts}, tuple(tw) if tw else None, tuple(fa) if fa else None, st["nperseg"],
                                 bool(st.get("normalize", False)))["a"]
        return ("ok", np.array(f, dtype=float), np.array(p, dtype=float))
    except Exception as e:  # noqa
        return _errkind(e)


def _argkey(st):
    return repr((st["op"], st.get("nperseg"), st.get("noverlap"), st.get("nfft"), bool(st.get("normalize", False)),
                 sorted((st.get("options") or {}).items()), st.get("twin"), st.get("fargs")))


def _show(r):
    return brief(r[2]) if r[0] == "ok" else list(r)


def evaluate_history(case):
    """A sequence of requests and data updates on the same TimeSeries object(s). After every request the clauses are
    evaluated for the data the series holds at that moment (a shadow copy of (t, x) updated by the same operations)."""
    import copy as _copy
    from qats import TimeSeries
    bad = []
    t0, x0 = materialise(case["sig"])
    checks = case.get("checks", [])
    objs = [dict(ts=TimeSeries("a", t0, x0), t=np.array(t0), x=np.array(x0), sig=case["sig"], prev={})]
    cur = 0

    def report(clause, i, exp, obs):
        bad.append((clause, dict(step=i, value=exp), dict(step=i, value=obs)))

    for i, st in enumerate(case["steps"]):
        o = objs[cur]
        op = st["op"]
        if op in ("scale", "shift"):
            v = st["v"]
            if op == "scale":
                if st.get("how") == "inplace":
                    o["ts"].x *= v
                else:
                    o["ts"].x = v * o["ts"].x
                o["x"] = v * o["x"]
            else:
                if st.get("how") == "inplace":
                    o["ts"].x += v
                else:
                    o["ts"].x = o["ts"].x + v
                o["x"] = o["x"] + v
            for pv in o["prev"].values():
                if op == "scale":
                    pv["a"] *= v
                else:
                    pv["shifted"] = True
                pv["ratio"] = max(pv["ratio"], _ratio(o["x"]))
        elif op == "replace":
            sig2 = dict(st["sig"])
            n = o["x"].size
            if "x" in sig2:
                xn = np.resize(np.array(sig2["x"], dtype=float), n)
            else:
                sig2["n"] = n
                xn = materialise(sig2)[1]
            if st.get("how") == "slice":
                o["ts"].x[:] = xn
            else:
                o["ts"].x = np.array(xn)
            if sig2.get("tones") and o.get("kcum", 1.0) != 1.0:    # frequencies in the unit the time axis has now
                sig2 = dict(sig2, tones=[[a_, f_ / o["kcum"], ph_] for a_, f_, ph_ in sig2["tones"]])
            o["x"], o["sig"], o["prev"] = np.array(xn), sig2, {}
        elif op == "poke":
            j = st["i"] % o["x"].size
            o["ts"].x[j] += st["v"]
            o["x"][j] += st["v"]
            o["prev"] = {}
        elif op == "modify":
            try:
                tn, xn = [np.array(v, dtype=float) for v in TimeSeries("s", o["t"].copy(), o["x"].copy()).get(**_opts(st))]
                if tn.size < 2:
                    return bad                          # the window leaves nothing of this series: the history ends here
                o["t"], o["x"] = tn, xn
                o["ts"].modify(**_opts(st))
            except Exception:  # noqa  (a window / step this series does not support: not this property's subject)
                return bad
            o["prev"] = {}
        elif op == "retime":
            # the time axis rewritten in place through the public attribute (another unit / stretched record)
            k = st["k"]
            tt = o["ts"].t
            tt[:] = tt[0] + k * (tt - tt[0])
            o["t"] = o["t"][0] + k * (o["t"] - o["t"][0])
            o["prev"] = {}
            o["kcum"] = o.get("kcum", 1.0) * k
            if o["sig"].get("tones"):                    # the sinusoids' frequencies in the new unit
                o["sig"] = dict(o["sig"], tones=[[a_, f_ / k, ph_] for a_, f_, ph_ in o["sig"]["tones"]])
        elif op == "fork":
            if st.get("how") == "ctor":
                new = TimeSeries("b", o["ts"].t, o["ts"].x)
            elif st.get("how") == "copy.copy":
                new = _copy.copy(o["ts"])
            else:
                new = o["ts"].copy()
            objs.append(dict(ts=new, t=o["t"].copy(), x=o["x"].copy(), sig=o["sig"], prev={}, kcum=o.get("kcum", 1.0)))
            cur = len(objs) - 1
        elif op == "switch":
            cur = st["to"] % len(objs)
        elif op == "read":
            try:
                getattr(o["ts"], st["what"])()
            except Exception:  # noqa
                pass
        elif op == "fault":
            # a request that is rejected (part-way) on the long-lived object; the clauses are evaluated on the requests after it
            res = _timed(lambda: do_fault(o["ts"], st))
            if res[0] == "timeout":
                report("a request that is rejected returns (raises) within %g s" % TIME_LIMIT, i, "returns", "no return")
                return bad
            if st["what"] == "modify" and res[0] == "done":
                return bad                              # accepted after all (the data changed): not a fault history
        elif op in ("psd", "gui"):
            norm = bool(st.get("normalize", False))
            tc, xc = o["t"], o["x"]
            if case.get("timed"):
                res = _timed(lambda: call_obj(o["ts"], st))
                if res[0] != "done":
                    report("after a rejected request on the same object, the next spectrum request returns within %g s" % TIME_LIMIT,
                           i, "returns", "no return" if res[0] == "timeout" else repr(res[1])[:80])
                    return bad
                r = res[1]
            else:
                r = call_obj(o["ts"], st)
            fresh = call_obj(TimeSeries("a", tc.copy(), xc.copy()), st)
            ratio = _ratio(xc)
            skipval = not np.isfinite(ratio)             # constant data: the spectrum is rounding noise
            key = _argkey(st)
            pv = o["prev"].get(key)
            # -- the definition, for the data the series holds now ------------------------------------------------
            if op == "psd":
                try:
                    tp, xp = TimeSeries("a", tc.copy(), xc.copy()).get(**_opts(st))
                    ref = ("ok",) + ref_ts(np.asarray(tp, dtype=float), np.asarray(xp, dtype=float), st.get("nperseg"),
                                           st.get("noverlap"), st.get("nfft"), norm)
                except Exception as e:  # noqa
                    ref = _errkind(e)
            else:
                ref = fresh
            failed = False
            if ref[0] != r[0] or (ref[0] == "err" and ref[1] != r[1]):
                report("after updates of the series' data, the outcome (spectrum / ValueError) is the one the definition prescribes "
                       "for the data the series holds now", i, ref[:2] if ref[0] == "err" else "spectrum", r[:2] if r[0] == "err" else "spectrum")
                failed = True
            elif r[0] == "ok" and not skipval:
                dtc = float(np.mean(np.diff(tc)))
                sc = 1.0 if norm else scale_of(ref[2], xc, dtc)
                tol = (1e-9 + 4e-15 * ratio) * sc
                if not same(r[1], ref[1], 1e-9 * (1 + float(np.max(np.abs(ref[1]))) if ref[1].size else 1.0)) or not same(r[2], ref[2], tol):
                    report("after updates of the series' data (assignment / in-place change of x, modify, copies), the spectrum is "
                           "Welch's density of the data the series holds now" + ("" if op == "psd" else " (GUI path: same as for a new series with that data)"),
                           i, dict(f=brief(ref[1], 3), p=brief(ref[2])), dict(f=brief(r[1], 3), p=brief(r[2])))
                    failed = True
                elif fresh[0] != "ok" or not same(fresh[2], r[2], 1e-12 * sc) or not same(fresh[1], r[1], 0.0):
                    report("the spectrum depends only on the series' current data and the arguments: a long-lived object and a new "
                           "TimeSeries of the same (t, x) give the same spectrum", i, _show(fresh), _show(r))
                    failed = True
            # -- GUI path against the spelled-out chain (window, resampling, filter, taper, clip) + the definition ---------------------
            if op == "gui" and not failed:
                tw, fa = st.get("twin"), st.get("fargs")
                rg = ref_gui(tc, xc, tuple(tw) if tw else None, tuple(fa) if fa else None, st["nperseg"], norm)
                if rg is not None:
                    tmp = []
                    _cmp_spectrum(tmp, "GUI path after updates of the series' data", r, rg[0], rg[1], rg[2], rg[3], None, None, norm)
                    for c_, e_, o_ in tmp:
                        report(c_, i, e_, o_)
                        failed = True
            # -- amplitude^2 / constant offset relative to the previous identical request ------------------------------------------
            # (not through a frequency filter: the numerical response of the Butterworth filter to a constant level, and its
            #  round-off when the cut-off lies far below the resolution, are property C12's subject, not the estimator's; those
            #  requests are compared with the spelled-out chain and with a new object above)
            if not failed and pv is not None and r[0] == "ok" and pv["r"][0] == "ok" and not skipval and np.isfinite(pv["ratio"]) \
                    and not st.get("fargs"):
                a = pv["a"]
                exp = pv["r"][2] if norm else a * a * pv["r"][2]
                sc = 1.0 if norm else a * a * pv["sc"]
                tol = (1e-8 + 1e-13 * max(ratio, pv["ratio"])) * sc
                if a != 0 and (not same(r[2], exp, tol) or not same(r[1], pv["r"][1], 0.0)):
                    report("multiplying the series' data by a (and adding constants) between two identical requests multiplies the "
                           "densities by a^2 (normalised: leaves them unchanged)", i, dict(a=a, p=brief(exp)), dict(a=a, p=brief(r[2])))
                    failed = True
            if r[0] == "ok" and not skipval:
                dtc = float(np.mean(np.diff(tc)))
                o["prev"][key] = dict(r=r, a=1.0, shifted=False, ratio=ratio, sc=1.0 if norm else scale_of(r[2], xc, dtc))
            else:
                o["prev"].pop(key, None)
            # -- measurements on stationary signals --------------------------------------------------------------------------------------
            if not failed and r[0] == "ok" and not st.get("options") and not st.get("twin") and not st.get("fargs"):
                f, p = r[1], r[2]
                if "area" in checks and not norm:
                    var, area = float(np.var(xc)), float(np.trapezoid(p, f))
                    lo, hi = (0.92, 1.03) if op == "gui" else (0.97, 1.03)
                    if not (lo * var <= area <= hi * var):
                        report("the area under the density reproduces the variance of the stationary signal the series holds now", i, var, area)
                if "peak" in checks and o["sig"].get("tones"):
                    f0 = o["sig"]["tones"][0][1]
                    fp = float(f[int(np.nanargmax(p))])
                    if abs(fp - f0) > 1.0 * float(f[1] - f[0]):
                        report("the spectrum peaks at the frequency of the dominant sinusoid of the signal the series holds now", i, f0, fp)
    return bad


def _ratio(x):
    """largest magnitude over the standard deviation: how much of the float precision the offset consumes (inf: constant)"""
    s = float(np.std(x)) if len(x) else 0.0
    m = float(np.max(np.abs(x))) if len(x) else 0.0
    return m / s if s > 1e-13 * max(m, 1e-300) else float("inf")



# ----------------------------------------------------------------------------------------------------------
# processing options, GUI containers, plotting wrappers, histories on the caller's array
# ----------------------------------------------------------------------------------------------------------
def _get_opts(options):
    """keyword arguments of TimeSeries.get as the caller writes them (window / filter as tuple, or as list when `as_list`)"""
    o = dict(options or {})
    as_list = o.pop("as_list", False)
    for k in ("twin", "filterargs"):
        if isinstance(o.get(k), list) and not as_list:
            o[k] = tuple(o[k])
    return o


def _processed(t, x, opts):
    """(t', x') of the processed series, by a separate object; None if the options cannot be applied to this series"""
    from qats import TimeSeries
    try:
        tp, xp = TimeSeries("r", np.array(t, dtype=float), np.array(x, dtype=float)).get(**opts)
        tp, xp = np.asarray(tp, dtype=float), np.asarray(xp, dtype=float)
    except Exception:  # noqa
        return None
    if tp.size < 2 or tp.size != xp.size or not np.all(np.isfinite(xp)) or not np.all(np.isfinite(tp)):
        return None
    return tp, xp


def _ref_outcome(tp, xp, nperseg, noverlap, nfft, norm):
    try:
        return ("ok",) + ref_ts(tp, xp, nperseg, noverlap, nfft, norm)
    except ValueError as e:
        return _errkind(e)


def _cmp_spectrum(bad, what, r, ref, tp, xp, nperseg, noverlap, nfft, norm, wrap=lambda v: v):
    """outcome, frequencies and densities of `r` against the definition applied to the processed series (tp, xp)"""
    if ref[0] != r[0] or (ref[0] == "err" and ref[1] != r[1]):
        bad.append((what + ": the outcome (spectrum / ValueError of the argument checks / time-step error) is the one the "
                    "definition prescribes for the processed series", wrap(ref[:2] if ref[0] == "err" else "spectrum"),
                    wrap(r[:2] if r[0] == "err" else "spectrum")))
        return False
    if r[0] != "ok":
        return True
    dtp = float(np.mean(np.diff(tp)))
    if not same(r[1], ref[1], 1e-12 * (float(np.max(np.abs(ref[1]))) if ref[1].size else 0.0) + 1e-300):
        bad.append((what + ": frequencies run from 0 to 1/(2 dt') in steps of 1/(nfft dt'), dt' = time step of the processed "
                    "series; default segment = a quarter of the processed series", wrap(dict(n=int(ref[1].size), f=brief(ref[1], 3), last=float(ref[1][-1]) if ref[1].size else None)),
                    wrap(dict(n=int(r[1].size), f=brief(r[1], 3), last=float(r[1][-1]) if r[1].size else None))))
        return False
    if norm:
        plain = _ref_outcome(tp, xp, nperseg, noverlap, nfft, False)
        if is_noise(plain, xp, dtp) or _ratio(xp) == float("inf"):
            return True                                   # noise / noise
    sc = 1.0 if norm else scale_of(ref[2], xp, dtp)
    rt = _ratio(xp)
    if not np.isfinite(rt):
        return True
    if not same(r[2], ref[2], (1e-9 + 4e-15 * rt) * sc):
        bad.append((what + ": densities equal the independent implementation of Welch's Hann-windowed, mean-removed, one-sided "
                    "density of the processed series (1e-9 of the peak)", wrap(brief(ref[2])), wrap(brief(r[2]))))
        return False
    return True


def _tsopt_call(ts, kw, norm, opts, style):
    try:
        if style == "pos":
            f, p = ts.psd(kw["nperseg"], kw["noverlap"], "constant", kw["nfft"], norm, **opts)
        elif style == "omit":
            f, p = ts.psd(**{k: v for k, v in kw.items() if v is not None}, **({"normalize": True} if norm else {}), **opts)
        else:
            f, p = ts.psd(normalize=norm, **kw, **opts)
        return ("ok", np.asarray(f, dtype=float), np.asarray(p, dtype=float))
    except Exception as e:  # noqa
        return _errkind(e)


def impl_processed(case):
    """implementation result and processed arrays of a `tsopt` case / a single-series `guiopt` case (for the model tie)"""
    from qats import TimeSeries
    from qats.app.funcs import calculate_psd
    norm = bool(case.get("normalize", False))
    if case["api"] == "tsopt":
        t, x = materialise(case["sig"])
        opts = _get_opts(case.get("options"))
        pr = _processed(t, x, opts)
        if pr is None:
            return None
        kw = dict(nperseg=case.get("nperseg"), noverlap=case.get("noverlap"), nfft=case.get("nfft"))
        try:
            r = _tsopt_call(TimeSeries("a", t.copy(), x.copy()), kw, norm, opts, (case.get("spell") or {}).get("args", "kw"))
        except Exception as e:  # noqa
            r = _errkind(e)
        return r, pr[0], pr[1], kw["nperseg"], kw["noverlap"], kw["nfft"], norm
    s_ = case["series"][0]
    t, x = materialise(s_["sig"])
    tw, fa = case.get("twin"), case.get("fargs")
    rg = ref_gui(t, x, tuple(tw) if tw else None, tuple(fa) if fa else None, case["nperseg"], norm)
    if rg is None:
        return None
    try:
        f, p = calculate_psd({s_["key"]: TimeSeries(s_.get("name", "a"), t.copy(), x.copy())}, tuple(tw) if tw else None,
                             tuple(fa) if fa else None, case["nperseg"], norm)[s_["key"]]
        r = ("ok", np.asarray(f, dtype=float), np.asarray(p, dtype=float))
    except Exception as e:  # noqa
        r = _errkind(e)
    return r, rg[1], rg[2], rg[3], None, None, norm


def evaluate_tsopt(case):
    """TimeSeries.psd with processing options: the spectrum is the definition applied to the series get(**options) returns"""
    from qats import TimeSeries
    bad = []
    t, x = materialise(case["sig"])
    opts = _get_opts(case.get("options"))
    norm = bool(case.get("normalize", False))
    kw = dict(nperseg=case.get("nperseg"), noverlap=case.get("noverlap"), nfft=case.get("nfft"))
    style = (case.get("spell") or {}).get("args", "kw")
    pr = _processed(t, x, opts)
    if pr is None:
        return bad                                        # options not applicable to this series: not this property's subject
    tp, xp = pr
    ref = _ref_outcome(tp, xp, kw["nperseg"], kw["noverlap"], kw["nfft"], norm)
    ts = None
    for rep in range(2 if case.get("repeat") else 1):
        try:
            if ts is None:
                ts = TimeSeries("a", t.copy(), x.copy())
            r = _tsopt_call(ts, kw, norm, opts, style)
        except Exception as e:  # noqa
            r = _errkind(e)
        _cmp_spectrum(bad, "TimeSeries.psd with processing options %s%s" % (sorted(opts), " (second identical request)" if rep else ""),
                      r, ref, tp, xp, kw["nperseg"], kw["noverlap"], kw["nfft"], norm)
        if bad:
            break
    return bad


def ref_gui(t, x, twin, fargs, nperseg, norm):
    """the GUI path spelled out: window, resampling to the mean step of the whole series, filter, 10 % taper, segment
    clipped to the length of the processed series; then the definition. None if the processing is not applicable."""
    if len(t) < 2:
        return None
    opts = dict(twin=twin, filterargs=fargs, resample=float(np.mean(np.diff(t))), taperfrac=0.1)
    pr = _processed(t, x, opts)
    if pr is None:
        return None
    tp, xp = pr
    nps = min(int(nperseg), tp.size)
    return _ref_outcome(tp, xp, nps, None, None, norm), tp, xp, nps


def evaluate_guiopt(case):
    """calculate_psd on a container of several series with time window / filter arguments"""
    from qats import TimeSeries
    from qats.app.funcs import calculate_psd
    bad = []
    sp = case.get("spell") or {}
    norm = bool(case.get("normalize", False))
    tw, fa = case.get("twin"), case.get("fargs")
    tw_ = (list(tw) if sp.get("twin") == "list" else tuple(tw)) if tw else None
    fa_ = (list(fa) if sp.get("fargs") == "list" else tuple(fa)) if fa else None
    container, data, objs = {}, [], []
    try:
        for s_ in case["series"]:
            if s_.get("alias") is not None:
                ts = objs[s_["alias"]]
                t, x = data[s_["alias"]][1:]
            else:
                t, x = materialise(s_["sig"])
                ts = TimeSeries(s_.get("name", "a"), spell_array(t, sp.get("t", "ndarray")), spell_array(x, sp.get("x", "ndarray")))
            objs.append(ts)
            data.append((s_["key"], t, x))
            container[s_["key"]] = ts
    except Exception as e:  # noqa
        return [("the series can be constructed", "TimeSeries", list(_errkind(e)))]
    refs = [ref_gui(t, x, tw_, fa_, case["nperseg"], norm) for _, t, x in data]
    if any(r is None for r in refs):
        return bad
    nps = spell_n(case["nperseg"], sp.get("n"))
    out = None
    for rep in range(2 if case.get("repeat") else 1):
        try:
            if sp.get("args") == "kwcall":
                out = calculate_psd(container=container, twin=tw_, fargs=fa_, nperseg=nps, normalize=norm)
            else:
                out = calculate_psd(container, tw_, fa_, nps, norm)
            err = None
        except Exception as e:  # noqa
            out, err = None, _errkind(e)
        tag = "calculate_psd(twin=%r, fargs=%r)%s" % (tw, fa, " (second identical request)" if rep else "")
        if err is not None:
            if all(r[0][0] == "ok" for r in refs):
                bad.append((tag + ": the call succeeds for series the definition gives a spectrum for", "spectra", list(err)))
            return bad
        keys = [k for k, _, _ in data]
        uniq = list(dict.fromkeys(keys))
        try:
            okeys = list(out.keys())
        except Exception:  # noqa
            okeys = None
        if okeys != uniq:
            bad.append((tag + ": one spectrum per entry of the container, under the container's keys, in its order", uniq, okeys))
            return bad
        for (key, t, x), (ref, tp, xp, nps_) in zip(data, refs):
            try:
                f, p = out[key]
                r = ("ok", np.asarray(f, dtype=float), np.asarray(p, dtype=float))
            except Exception as e:  # noqa
                r = _errkind(e)
            _cmp_spectrum(bad, tag + " entry %r" % key, r, ref, tp, xp, nps_, None, None, norm, wrap=lambda v, key=key: dict(key=key, value=v))
        if bad:
            break
    return bad


_PLOT_NUM = 9131


def evaluate_plot(case):
    """TimeSeries.plot_psd / TsDB.plot_psd: the plotted curves are the spectra of the selected series"""
    import matplotlib
    try:
        import matplotlib.pyplot as plt
        if matplotlib.get_backend().lower() != "agg":
            plt.switch_backend("Agg")
    except Exception as e:  # noqa
        return []
    from qats import TimeSeries, TsDB
    bad = []
    opts = _get_opts(case.get("options"))
    pa = {k: v for k, v in (case.get("psdargs") or {}).items() if v is not None and v is not False}
    norm = bool(pa.get("normalize", False))
    series = [(s_["name"],) + tuple(materialise(s_["sig"])) for s_ in case["series"]]
    sel = case.get("names")
    chosen = [s_ for s_ in series if sel is None or s_[0] == sel or (isinstance(sel, list) and s_[0] in sel)]
    refs = {}
    for name, t, x in chosen:
        pr = _processed(t, x, opts)
        if pr is None:
            return bad
        ref = _ref_outcome(pr[0], pr[1], pa.get("nperseg"), pa.get("noverlap"), pa.get("nfft"), norm)
        if ref[0] != "ok":
            return bad
        refs[name] = (ref,) + pr
    plt.close(_PLOT_NUM)
    try:
        if case["via"] == "ts":
            name, t, x = series[0]
            TimeSeries(name, t.copy(), x.copy()).plot_psd(show=False, num=_PLOT_NUM, **pa, **opts)
        else:
            db = TsDB()
            for name, t, x in series:
                db.add(TimeSeries(name, t.copy(), x.copy()))
            db.plot_psd(names=sel, show=False, num=_PLOT_NUM, **pa, **opts)
        lines = [(str(ln.get_label()), np.asarray(ln.get_xdata(), dtype=float), np.asarray(ln.get_ydata(), dtype=float))
                 for ln in plt.figure(_PLOT_NUM).gca().lines]
    except Exception as e:  # noqa
        plt.close(_PLOT_NUM)
        return [("%s.plot_psd draws the spectra the definition gives for the selected series" % ("TimeSeries" if case["via"] == "ts" else "TsDB"),
                 "curves", list(_errkind(e)) + [str(e)[:80]])]
    plt.close(_PLOT_NUM)
    if sorted(l[0] for l in lines) != sorted(refs):
        return [("plot_psd draws one curve per selected series, labelled with its name", sorted(refs), sorted(l[0] for l in lines))]
    for lab, f, p in lines:
        ref, tp, xp = refs[lab]
        _cmp_spectrum(bad, "plot_psd curve %r" % lab, ("ok", f, p), ref, tp, xp, pa.get("nperseg"), pa.get("noverlap"), pa.get("nfft"), norm)
    return bad


def evaluate_sighist(case):
    """qats.signal.psd called repeatedly with the SAME array object, changed in place by the caller between the calls (other
    dt / segment settings per call): every spectrum is the definition applied to the values the array holds at the call"""
    from qats.signal import psd
    bad = []
    _, x0 = materialise(case["sig"])
    arr = spell_array(x0, (case.get("spell") or {}).get("x", "ndarray"))
    if not isinstance(arr, np.ndarray) or arr.dtype != float:
        arr = np.array(x0, dtype=float)
    if not arr.flags.writeable:
        arr = arr.copy()
    shadow = np.array(x0, dtype=float)
    for i, st in enumerate(case["steps"]):
        op = st["op"]
        if op == "scale":
            arr *= st["v"]
            shadow = shadow * st["v"]
        elif op == "shift":
            arr += st["v"]
            shadow = shadow + st["v"]
        elif op == "replace":
            sig2 = dict(st["sig"], n=shadow.size)
            xn = np.resize(np.array(sig2["x"], dtype=float), shadow.size) if "x" in sig2 else materialise(sig2)[1]
            arr[:] = xn
            shadow = np.array(xn, dtype=float)
        elif op == "poke":
            j = st["i"] % shadow.size
            arr[j] += st["v"]
            shadow[j] += st["v"]
        elif op == "psd":
            kw = {k: st[k] for k in ("nperseg", "noverlap", "nfft") if k in st}
            try:
                f, p = psd(arr, st["dt"], **kw)
                r = ("ok", np.asarray(f, dtype=float), np.asarray(p, dtype=float))
            except Exception as e:  # noqa
                r = _errkind(e)
            try:
                ref = ("ok",) + ref_welch(shadow.copy(), st["dt"], st.get("nperseg"), st.get("noverlap"), st.get("nfft"))
            except ValueError as e:
                ref = _errkind(e)
            wrap = lambda v, i=i: dict(step=i, value=v)  # noqa
            if ref[0] != r[0] or (ref[0] == "err" and ref[1] != r[1]):
                bad.append(("signal.psd on an array the caller keeps and changes between calls: the outcome is the one the definition "
                            "prescribes for the values the array holds at the call", wrap(ref[:2] if ref[0] == "err" else "spectrum"),
                            wrap(r[:2] if r[0] == "err" else "spectrum")))
                break
            if r[0] != "ok":
                continue
            rt = _ratio(shadow)
            if not same(r[1], ref[1], 1e-12 * (float(np.max(np.abs(ref[1]))) if ref[1].size else 0.0) + 1e-300):
                bad.append(("signal.psd, repeated calls: frequencies equal k/(nfft*dt) of THIS call's dt", wrap(brief(ref[1])), wrap(brief(r[1]))))
                break
            if np.isfinite(rt) and not same(r[2], ref[2], (1e-9 + 4e-15 * rt) * scale_of(ref[2], shadow, st["dt"])):
                bad.append(("signal.psd on an array the caller keeps and changes between calls: the densities are Welch's density of the "
                            "values the array holds at the call, for this call's dt and segment settings", wrap(brief(ref[2])), wrap(brief(r[2]))))
                break
    return bad


TIME_LIMIT = 5.0


def _timed(fn, limit=TIME_LIMIT):
    """run `fn()` in a worker thread: ("done", value) / ("raised", exception) / ("timeout",) — a check never hangs"""
    import threading
    box = []

    def work():
        try:
            box.append(("done", fn()))
        except BaseException as e:  # noqa
            box.append(("raised", e))
    th = threading.Thread(target=work, daemon=True)
    th.start()
    th.join(limit)
    return box[0] if box else ("timeout",)


def _fault_kwargs(kw):
    return {k: (tuple(v) if isinstance(v, list) and k in ("twin", "filterargs") else v) for k, v in (kw or {}).items()}


def do_fault(ts, st):
    """a request the entry point is expected to reject (invalid argument, filter beyond the Nyquist frequency, window
    outside the record, unknown filter name, ...), made on a long-lived object; the outcome itself is not judged"""
    from qats.app.funcs import calculate_psd
    kw = _fault_kwargs(st.get("kwargs"))
    what = st["what"]
    if what == "psd":
        return ts.psd(**kw)
    if what == "get":
        return ts.get(**kw)
    if what == "modify":
        return ts.modify(**kw)
    if what == "plot_psd":
        return ts.plot_psd(show=False, num=_PLOT_NUM + 1, **kw)
    tw, fa = st.get("twin"), st.get("fargs")
    return calculate_psd({"a": ts}, tuple(tw) if tw else None, tuple(fa) if fa else None, st.get("nperseg", 64), bool(st.get("normalize", False)))


def _peak_info(f, p):
    try:
        f, p = np.asarray(f, dtype=float), np.asarray(p, dtype=float)
        return dict(n=int(f.size), f_last=float(f[-1]) if f.size else None,
                    f_peak=float(f[int(np.nanargmax(p))]) if p.size and not np.all(np.isnan(p)) else None, p=brief(p, 3))
    except Exception as e:  # noqa
        return "%s: %s" % (type(e).__name__, str(e)[:60])


def evaluate_guifault(case):
    """calculate_psd on ONE container of several long-lived series, a sequence of requests of which some cannot be fulfilled
    for one (or all) of the series: filter cut-off at / above that series' Nyquist frequency, a time window holding one or
    none of its samples, invalid filter arguments / segment length. Such a request may be rejected (any exception) or leave
    that series out, but every spectrum handed back must be the spectrum of the series it is labelled with (the definition
    applied to the spelled-out chain for THAT series); ordinary requests before / after on the same objects (whole container,
    sub-containers in another order) satisfy the full clauses. Every call runs under a time limit."""
    from qats import TimeSeries
    from qats.app.funcs import calculate_psd
    bad = []
    sp = case.get("spell") or {}
    data, objs = {}, {}
    order = []
    try:
        for s_ in case["series"]:
            t, x = materialise(s_["sig"])
            objs[s_["key"]] = TimeSeries(s_.get("name", "a"), spell_array(t, sp.get("t", "ndarray")), spell_array(x, sp.get("x", "ndarray")))
            data[s_["key"]] = (t, x)
            order.append(s_["key"])
    except Exception as e:  # noqa
        return [("the series can be constructed", "TimeSeries", list(_errkind(e)))]
    for ci, c in enumerate(case["calls"]):
        keys = c.get("keys") or order
        container = {k: objs[k] for k in keys}
        norm = bool(c.get("normalize", False))
        tw, fa = c.get("twin"), c.get("fargs")
        tw_ = (list(tw) if sp.get("twin") == "list" else tuple(tw)) if tw else None
        fa_ = (list(fa) if sp.get("fargs") == "list" else tuple(fa)) if fa else None
        nps = spell_n(c["nperseg"], sp.get("n"))
        try:
            refs = {k: ref_gui(data[k][0], data[k][1], tw_, fa_, c["nperseg"], norm) for k in keys}
        except Exception:  # noqa  (e.g. a segment length that is not a number: no series accepted)
            refs = {k: None for k in keys}
        rejected = [k for k in keys if refs[k] is None or refs[k][0][0] != "ok"]
        tag = "call %d of %d on the same series objects: calculate_psd(%s, twin=%r, fargs=%r, nperseg=%r)" % (
            ci + 1, len(case["calls"]), keys, tw, fa, c["nperseg"])
        wrapc = lambda v, ci=ci: dict(call=ci, value=v)  # noqa
        if sp.get("args") == "kwcall":
            res = _timed(lambda: calculate_psd(container=container, twin=tw_, fargs=fa_, nperseg=nps, normalize=norm))
        else:
            res = _timed(lambda: calculate_psd(container, tw_, fa_, nps, norm))
        if res[0] == "timeout":
            bad.append((tag + ": the query returns (spectra or an exception) within %g s" % TIME_LIMIT, wrapc("returns"), wrapc("no return")))
            return bad
        if res[0] == "raised":
            if not rejected:
                bad.append((tag + ": the call succeeds for series the definition gives a spectrum for (also after a rejected "
                            "request on the same objects)", wrapc("spectra"), wrapc(list(_errkind(res[1])) + [str(res[1])[:80]])))
                return bad
            continue                                      # rejected as a whole: allowed
        out = res[1]
        try:
            okeys = list(out.keys())
        except Exception:  # noqa
            okeys = None
        want = [k for k in keys if k not in rejected]
        if okeys is None or [k for k in okeys if k in want] != want or any(k not in keys for k in okeys):
            bad.append((tag + ": one spectrum per entry of the container the request can be fulfilled for, under the container's keys, "
                        "in its order", wrapc(want), wrapc(okeys)))
            return bad
        for k in okeys:
            got = out[k]
            if k in rejected and refs[k] is None:
                # nothing may be handed back for this series but a marker of absence
                try:
                    f, p = got
                    f, p = np.asarray(f, dtype=float), np.asarray(p, dtype=float)
                    empty = f.size == 0 or p.size == 0 or np.all(np.isnan(p))
                except Exception:  # noqa
                    empty = True
                if not empty:
                    twin_of = [k2 for k2 in okeys if k2 != k and k2 not in rejected and np.array_equal(np.asarray(out[k2][0]), f)
                               and np.array_equal(np.asarray(out[k2][1]), p)]
                    t_, _x = data[k]
                    bad.append((tag + " entry %r: this request cannot be fulfilled for this series (TimeSeries.get / psd on it alone reject "
                                "it: e.g. cut-off not below its Nyquist frequency %.6g Hz, fewer than two of its samples in the window, record "
                                "too short for the filter), so the call raises or hands back no spectrum for it: a spectrum handed back under "
                                "a series' key is that series' own (frequencies up to ITS 1/(2 dt), ITS values)" % (k, 0.5 / float(np.mean(np.diff(t_)))),
                                wrapc(dict(key=k, value="exception, or no spectrum under this key")),
                                wrapc(dict(key=k, value=_peak_info(f, p), identical_to_entry=twin_of or None))))
                continue
            ref, tp, xp, nps_ = refs[k]
            try:
                f, p = got
                r = ("ok", np.asarray(f, dtype=float), np.asarray(p, dtype=float))
            except Exception as e:  # noqa
                r = _errkind(e)
            _cmp_spectrum(bad, tag + " entry %r" % k, r, ref, tp, xp, nps_, None, None, norm,
                          wrap=lambda v, k=k, ci=ci: dict(call=ci, key=k, value=v))
        # the series themselves are untouched by a request
        for k in keys:
            t_, x_ = data[k]
            try:
                same_data = np.array_equal(np.asarray(objs[k].t, dtype=float), t_) and np.array_equal(np.asarray(objs[k].x, dtype=float), x_)
            except Exception:  # noqa
                same_data = False
            if not same_data:
                bad.append((tag + ": a spectrum request leaves the data of series %r as it was (later spectra are those of the same record)" % k,
                            wrapc(dict(t=brief(t_, 3), x=brief(x_, 3))), wrapc(dict(t=brief(objs[k].t, 3), x=brief(objs[k].x, 3)))))
        if bad:
            break
    return bad


# ----------------------------------------------------------------------------------------------------------
# the exact identity behind "area = variance" (Lean: segment_area_is_weighted_meansquare,
# welch_area_is_mean_weighted_meansquare, psd_area_ts): both sides evaluated on the implementation
# ----------------------------------------------------------------------------------------------------------
PARSEVAL_RTOL = 1e-9


def parseval_sides(x, dt, f, p, nps, nov, nf):
    """(area of the returned spectrum, mean over the segments of sum((w*y)^2)/sum(w^2)); Hann window from scipy"""
    import scipy.signal
    x = np.asarray(x, dtype=float)
    n = x.size
    nps = min(nps, n)
    nov = nps // 2 if nov is None else nov
    nf = nps if nf is None else nf
    f, p = np.asarray(f, dtype=float), np.asarray(p, dtype=float)
    df = float(f[1] - f[0]) if f.size >= 2 else 1.0 / (nf * dt)      # the implementation's own frequency step
    area = float(np.sum(p * df))
    w = scipy.signal.get_window("hann", nps)
    vals = []
    for s0 in range(0, n - nps + 1, nps - nov):
        seg = x[s0:s0 + nps]
        y = seg - np.mean(seg)
        vals.append(float(np.sum((w * y) ** 2) / np.sum(w * w)))
    return area, float(np.mean(vals)), len(vals), df


def parseval_tol(x, rhs):
    return PARSEVAL_RTOL * abs(rhs) + (1e-12 * (float(np.max(np.abs(x))) if np.size(x) else 0.0)) ** 2 + 1e-300


def evaluate_parseval(case):
    """area under the spectrum = mean over the segments of the window-weighted mean square of the mean-removed segment,
    for signal.psd and for TimeSeries.psd (not normalised) on the same arrays; the second request on the same objects too"""
    import qats.signal
    from qats import TimeSeries
    bad = []
    t, x = materialise(case["sig"])
    dt = case["sig"]["dt"]
    nps, nov, nf = case["nperseg"], case.get("noverlap"), case.get("nfft")
    kw = {k: v for k, v in (("noverlap", nov), ("nfft", nf)) if v is not None}
    ts = TimeSeries("a", t, x)
    x0 = x.copy()
    for rep in range(2):
        for via in ("signal", "ts") if x.size >= 2 else ("signal",):     # one sample has no time step: TimeSeries.psd raises (modelled)
            if via == "signal":
                f, p = qats.signal.psd(x, dt, nperseg=nps, **kw)
                dte = dt
            else:
                f, p = ts.psd(nperseg=nps, **kw)
                dte = float(np.mean(np.diff(t)))
            area, rhs, nseg, df = parseval_sides(x0, dte, f, p, nps, nov, nf)
            nfe = min(nps, x.size) if nf is None else nf
            if not (np.isfinite(area) and abs(area - rhs) <= parseval_tol(x0, rhs)):
                bad.append(("the area under the one-sided density, sum(P) * df, equals the mean over the %s of sum((w*y)^2)/sum(w^2) "
                            "(w = Hann window, y = segment minus its mean; relative tolerance 1e-9) [%s%s]"
                            % ("segments" if nseg > 1 else "single segment", "signal.psd" if via == "signal" else "TimeSeries.psd",
                               ", second request" if rep else ""), rhs, area))
            if f.size >= 2 and not abs(df - 1.0 / (nfe * dte)) <= 1e-9 / (nfe * dte):
                bad.append(("the frequency step is 1/(nfft*dt) [%s]" % via, 1.0 / (nfe * dte), df))
    if not np.array_equal(x, x0):
        bad.append(("the signal is not changed by the request", brief(x0), brief(x)))
    return bad


def gen_parseval(rng, long=False):
    """seeded signal of even / odd length; one segment (nperseg = n) or several half-overlapping ones"""
    mode = rng.choice(["single", "single", "half", "half", "overlap", "pad"])
    if long:
        n = rng.choice([1000, 1001, 2048, 2049, 4097])
    else:
        u = rng.random()
        n = rng.choice([1, 2, 3, 4, 5, 6, 7, 8, 9]) if u < 0.2 else (rng.randint(10, 120) if u < 0.8 else rng.randint(121, 256))
    dt = pick_dt(rng)
    kind = rng.choice(["gauss", "gauss", "tones", "ints", "const", "ramp"])
    sig = dict(n=n, dt=dt, t0=rng.choice([0.0, 12.5, -3.0]), offset=rng.choice([0.0, 0.0, 1.5, -40.0]))
    if kind == "gauss":
        sig.update(noise_sd=rng.choice([1.0, 0.25, 30.0]), noise_seed=rng.randrange(10 ** 9))
    elif kind == "tones":
        fny = 0.5 / dt
        sig.update(tones=[[rng.uniform(0.1, 3.0), rng.uniform(0.02, 0.98) * fny, rng.uniform(0, 2 * math.pi)] for _ in range(rng.randint(1, 3))],
                   noise_sd=rng.choice([0.0, 0.1]), noise_seed=rng.randrange(10 ** 9))
    elif kind == "ramp":
        sig.update(slope=rng.uniform(-2, 2), noise_sd=0.05, noise_seed=rng.randrange(10 ** 9))
    elif kind == "ints":
        r = random.Random(rng.randrange(10 ** 9))
        sig = dict(x=[float(r.randint(-4, 4)) for _ in range(n)], dt=dt, t0=sig["t0"])
    nov = nf = None
    if mode == "single" or n < 4:
        nps = n
        if n >= 2 and rng.random() < 0.25:
            nps = n + rng.choice([1, 7])                 # clipped to n
    else:
        nps = rng.randint(2, max(2, n // 2)) if not long else rng.choice([64, 127, 128, 255, 256, n // 4, n // 3])
        if mode == "half" and rng.random() < 0.5:
            nov = nps // 2                               # the default, written out
        elif mode == "overlap":
            nov = rng.choice([0, 1, nps - 1, nps // 3])
        elif mode == "pad":
            nf = nps + rng.choice([1, 2, 3, nps, nps + 1])
    return dict(api="parseval", sig=sig, nperseg=nps, noverlap=nov, nfft=nf), kind, mode


DISPATCH = {"parseval": evaluate_parseval, "history": evaluate_history, "tsopt": evaluate_tsopt, "guiopt": evaluate_guiopt, "plot": evaluate_plot,
            "sighist": evaluate_sighist, "guifault": evaluate_guifault}


def safe_evaluate(case):
    """an exception while evaluating the clauses (an implementation result of unexpected shape / type, ...) is a failing clause"""
    try:
        if case.get("timed") or case.get("api") == "guifault":
            # histories with rejected requests: backstop for calls outside the individually timed ones (new objects, references)
            res = _timed(lambda: evaluate(case), 6 * TIME_LIMIT)
            if res[0] == "timeout":
                return [("after a rejected request, spectrum requests on the same / on new objects return within %g s" % (6 * TIME_LIMIT),
                         "returns", "no return")]
            if res[0] == "raised":
                raise res[1]
            return res[1]
        return evaluate(case)
    except Exception as e:  # noqa
        import traceback
        tb = traceback.extract_tb(e.__traceback__)
        return [("the clauses of the property can be evaluated on what the implementation returns", "spectrum (two equally long float arrays)",
                 "%s: %s (at %s)" % (type(e).__name__, str(e)[:120], "; ".join("%s:%d" % (fr.name, fr.lineno) for fr in tb[-2:])))]


# ----------------------------------------------------------------------------------------------------------
# generators
# ----------------------------------------------------------------------------------------------------------
def short_signal(rng, n, dt):
    kind = rng.choice(["gauss", "gauss", "tones", "tones", "ramp", "const", "spike", "ints"])
    sig = dict(n=n, dt=dt, t0=rng.choice([0.0, 0.0, 12.5, -3.0, 1000.0]), offset=rng.choice([0.0, 0.0, 1.5, -40.0, 1000.0]))
    if kind == "gauss":
        sig.update(noise_sd=rng.choice([1.0, 0.01, 250.0]), noise_seed=rng.randrange(10 ** 9))
    elif kind == "tones":
        fny = 0.5 / dt
        sig.update(tones=[[rng.uniform(0.1, 3.0), rng.uniform(0.02, 0.98) * fny, rng.uniform(0, 2 * math.pi)] for _ in range(rng.randint(1, 3))],
                   noise_sd=rng.choice([0.0, 0.1]), noise_seed=rng.randrange(10 ** 9))
    elif kind == "ramp":
        sig.update(slope=rng.uniform(-2, 2), noise_sd=0.05, noise_seed=rng.randrange(10 ** 9))
    elif kind == "const":
        pass
    elif kind == "spike":
        sig.update(spikes=[[rng.randrange(max(1, n)), rng.choice([1.0, -5.0])]])
    else:
        r = random.Random(rng.randrange(10 ** 9))
        return dict(x=[float(r.randint(-4, 4)) for _ in range(n)], dt=dt, t0=sig["t0"]), kind
    return sig, kind


def pick_n(rng):
    u = rng.random()
    if u < 0.15:
        return rng.choice([1, 2, 3, 4, 5, 7, 8])
    if u < 0.75:
        return rng.randint(9, 64)
    if u < 0.95:
        return rng.randint(65, 160)
    return rng.choice([200, 255, 256])


def pick_dt(rng):
    return rng.choice(DTS) if rng.random() < 0.7 else round(10 ** rng.uniform(-2.5, 1.0), 6)


def pick_args(rng, n, default_nps):
    """nperseg / noverlap / nfft incl. defaults, clipping and the three invalid combinations"""
    u = rng.random()
    if u < 0.2:
        nps = None
    elif u < 0.3:
        nps = rng.choice([1, 2, 3, n, n + 1, n + 50])
    elif u < 0.33:
        nps = 0
    else:
        nps = rng.randint(2, max(2, n))
    eff = min(default_nps if nps is None else nps, n)
    u = rng.random()
    if u < 0.45 or eff < 1:
        nov = None
    elif u < 0.55:
        nov = 0
    elif u < 0.62:
        nov = eff + rng.choice([0, 1, 5])      # invalid
    else:
        nov = rng.randint(0, max(0, eff - 1))
    u = rng.random()
    if u < 0.55 or eff < 1:
        nf = None
    elif u < 0.62 and eff > 1:
        nf = rng.randint(1, eff - 1)           # invalid
    else:
        nf = eff + rng.choice([0, 1, 2, 3, eff, rng.randint(0, 40)])
    return nps, nov, nf


def segs(n, nps, nov, default_nps):
    eff = min(default_nps if nps is None else nps, n)
    if eff < 1:
        return 0
    o = eff // 2 if nov is None else nov
    return 0 if o >= eff else (n - o) // (eff - o)


def parse(o):
    if not o.startswith("ok"):
        return ("err", o.split()[1] if len(o.split()) > 1 else o)
    a, b = o[2:].split("|")
    return ("ok", np.array([unfbits(v) for v in a.split()]), np.array([unfbits(v) for v in b.split()]))


def arg(v):
    return "-" if v is None else str(v)


def floats(a):
    return " ".join(fbits(v) for v in a)


def history_signal(rng, n, dt, t0):
    """non-constant seeded signal recipe (offsets moderate so that a later shift by 1000 keeps the signal resolvable)"""
    while True:
        sig, kind = short_signal(rng, n, dt)
        if kind != "const":
            break
    sig["t0"] = t0
    if sig.get("offset") == 1000.0:
        sig["offset"] = 25.0
    return sig, kind


def gen_update(rng, n, dt, t0, allow):
    """one data update through the public interface of TimeSeries"""
    op = rng.choice(allow)
    if op == "scale":
        return dict(op="scale", v=rng.choice([3.0, -2.5, 0.3, 7.0, -1.0, 2.0]), how=rng.choice(["assign", "inplace"]))
    if op == "shift":
        return dict(op="shift", v=rng.choice([1000.0, -3.25, 1.0]), how=rng.choice(["assign", "inplace"]))
    if op == "replace":
        return dict(op="replace", sig=history_signal(rng, n, dt, t0)[0], how=rng.choice(["assign", "slice"]))
    if op == "poke":
        return dict(op="poke", i=rng.randrange(10 ** 6), v=rng.choice([5.0, -1.0, 100.0]))
    if op == "modify":
        if rng.random() < 0.5:
            a, b = sorted([rng.uniform(0.0, 0.4), rng.uniform(0.6, 1.0)])
            return dict(op="modify", options=dict(twin=[t0 + a * n * dt, t0 + b * n * dt]))
        return dict(op="modify", options=dict(resample=dt * rng.choice([2.0, 0.5, 3.0, 2.5])))
    if op == "fork":
        return dict(op="fork", how=rng.choice(["copy", "copy.copy", "ctor"]))
    if op == "retime":
        return dict(op="retime", k=rng.choice([2.0, 0.5, 60.0, 0.001, 3.0]))
    if op == "switch":
        return dict(op="switch", to=rng.randrange(4))
    return dict(op="read", what=rng.choice(["get", "std", "max", "mean"]))


def gen_history(rng, long):
    """requests interleaved with data updates on the same object; identical requests are repeated on purpose"""
    if long:
        n = rng.choice([1024, 2048, 4096])
        dt = rng.choice([0.05, 0.1, 0.2, 0.5, 1.0, 0.37])
        nps = rng.choice([128, 256, n // 8, None])
        eff = n // 4 if nps is None else nps
        t0 = rng.choice([0.0, 100.0])

        def tones_sig():
            df, fny = 1.0 / (eff * dt), 0.5 / dt
            fs, tries = [], 0
            k = rng.randint(1, 3)
            while len(fs) < k and tries < 200:
                tries += 1
                fc = rng.uniform(6 * df, fny - 6 * df)
                if all(abs(fc - g) >= 5 * df for g in fs):
                    fs.append(fc)
            a0 = rng.uniform(1, 3)
            tones = [[a0, fs[0], rng.uniform(0, 2 * math.pi)]] + [[a0 * rng.uniform(0.05, 0.33), g, rng.uniform(0, 2 * math.pi)] for g in fs[1:]]
            return dict(n=n, dt=dt, t0=t0, offset=rng.choice([0.0, 5.0, -300.0]), tones=tones,
                        noise_sd=rng.choice([0.0, 0.05, 0.2]) * a0, noise_seed=rng.randrange(10 ** 9))
        sig = tones_sig()
        reqs = [dict(op="psd", nperseg=nps, noverlap=None, nfft=None, normalize=False)]
        if rng.random() < 0.4:
            reqs.append(dict(op="gui", nperseg=eff, normalize=False, twin=None))
        steps = [dict(rng.choice(reqs))]
        for _ in range(rng.randint(2, 4)):
            for _ in range(rng.randint(1, 2)):
                op = rng.choice(["scale", "scale", "shift", "replace", "replace", "fork", "read", "retime"])
                steps.append(dict(op="replace", sig=tones_sig(), how=rng.choice(["assign", "slice"])) if op == "replace"
                             else gen_update(rng, n, dt, t0, [op]))
            steps.append(dict(rng.choice(reqs)))
        return dict(api="history", sig=sig, steps=steps, checks=["area", "peak"])
    n = rng.randint(16, 200)
    dt = pick_dt(rng)
    t0 = rng.choice([0.0, 0.0, 12.5, -3.0])
    sig, kind = history_signal(rng, n, dt, t0)
    if "x" not in sig:
        jit = rng.choice([0.0, 0.0, 0.0, 0.0, 0.002, 0.05])
        if jit:
            sig["jitter"] = dict(amp=jit, seed=rng.randrange(10 ** 9))
    reqs = []
    for _ in range(rng.randint(1, 2)):
        if rng.random() < 0.7:
            nps, nov, nf = pick_args(rng, n, n // 4)
            rq = dict(op="psd", nperseg=nps, noverlap=nov, nfft=nf, normalize=rng.random() < 0.3)
            u = rng.random()
            if u < 0.15:
                rq["options"] = dict(twin=[t0 + 0.1 * n * dt, t0 + 0.9 * n * dt])
            elif u < 0.3:
                rq["options"] = dict(resample=dt * rng.choice([2.0, 0.5]))
        else:
            rq = dict(op="gui", nperseg=rng.choice([8, 16, 64, 512, n, max(1, n // 4)]), normalize=rng.random() < 0.3,
                      twin=[t0 + 0.1 * n * dt, t0 + 0.9 * n * dt] if rng.random() < 0.2 else None)
            if rng.random() < 0.3:
                rq["fargs"] = pick_fargs(rng, 0.5 / dt)
        reqs.append(rq)
    allow = ["scale", "scale", "shift", "replace", "replace", "poke", "modify", "fork", "switch", "read", "retime"]
    steps = [dict(rng.choice(reqs))]
    for _ in range(rng.randint(1, 5)):
        for _ in range(rng.choice([0, 1, 1, 1, 2])):
            steps.append(gen_update(rng, n, dt, t0, allow))
        steps.append(dict(rng.choice(reqs)))
    return dict(api="history", sig=sig, steps=steps, checks=[])



def pick_fargs(rng, fny):
    """filter arguments as the GUI / TimeSeries.get take them (cut-offs inside the band)"""
    kind = rng.choice(["lp", "hp", "bp", "bs"])
    if kind in ("lp", "hp"):
        return [kind, round(rng.uniform(0.08, 0.7) * fny, 6)]
    a, b = sorted([rng.uniform(0.05, 0.4), rng.uniform(0.45, 0.85)])
    return [kind, round(a * fny, 6), round(b * fny, 6)]


def pick_options(rng, t, dt):
    """processing options of TimeSeries.get incl. options that are given but do nothing and windows ending on samples"""
    n = t.size
    opts = {}
    kinds = rng.sample(["twin", "resample", "filterargs", "taperfrac", "window_len"], rng.choice([1, 1, 2, 2, 3]))
    dte = dt
    if "twin" in kinds:
        u = rng.random()
        if u < 0.2:
            opts["twin"] = [float(t[0] - dt), float(t[-1] + dt)]                    # whole series: does nothing
        elif u < 0.35:
            opts["twin"] = [float(t[0]), float(t[-1])]                              # ends equal to the first / last sample
        elif u < 0.6:
            i, j = sorted(rng.sample(range(n), 2))
            opts["twin"] = [float(t[i]), float(t[j])]                               # thresholds equal to samples
        else:
            a, b = sorted([rng.uniform(0.0, 0.4), rng.uniform(0.6, 1.0)])
            opts["twin"] = [float(t[0] + a * (t[-1] - t[0])), float(t[0] + b * (t[-1] - t[0]))]
    if "resample" in kinds:
        dte = dt * rng.choice([2.0, 0.5, 3.0, 2.5, 1.0, 0.75])
        opts["resample"] = dte
    if "filterargs" in kinds:
        opts["filterargs"] = pick_fargs(rng, 0.5 / dte)
    if "taperfrac" in kinds:
        opts["taperfrac"] = rng.choice([0.1, 0.0, 0.5, 1.0, 0.25])
    if "window_len" in kinds:
        opts["window_len"] = rng.choice([1, 3, 5])
    if ("twin" in opts or "filterargs" in opts) and rng.random() < 0.3:
        opts["as_list"] = True
    return opts


def gen_tsopt(rng):
    n = rng.choice([rng.randint(24, 80), rng.randint(80, 300), rng.choice([400, 600, 1024])])
    dt = pick_dt(rng)
    t0 = rng.choice([0.0, 0.0, 12.5, -3.0, 1000.0])
    sig, kind = history_signal(rng, n, dt, t0)
    if "x" not in sig:
        jit = rng.choice([0.0, 0.0, 0.0, 0.002, 0.05])
        if jit:
            sig["jitter"] = dict(amp=jit, seed=rng.randrange(10 ** 9))
    t, _ = materialise(sig)
    opts = pick_options(rng, t, dt)
    nest = n
    if opts.get("twin"):
        nest = int(np.sum((t >= opts["twin"][0]) & (t <= opts["twin"][1])))
    if opts.get("resample"):
        nest = max(2, int(nest * dt / opts["resample"]))
    nps, nov, nf = pick_args(rng, max(2, nest), max(2, nest) // 4)
    if rng.random() < 0.35:
        nps = None                                          # the default: a quarter of the PROCESSED series
    case = dict(api="tsopt", sig=sig, options=opts, nperseg=nps, noverlap=nov, nfft=nf, normalize=rng.random() < 0.3,
                repeat=rng.random() < 0.3, spell=dict(args=rng.choice(["kw", "kw", "pos", "omit"])))
    return case, kind


def gen_guiopt(rng):
    k = rng.choice([1, 1, 2, 2, 3])
    t0 = rng.choice([0.0, 0.0, 12.5, -3.0, 1000.0])
    dur = rng.choice([20.0, 50.0, 100.0])
    series, keys = [], ["a", "Tension [kN]", "dir/f.ts\\b", "b", "psd"]
    rng.shuffle(keys)
    n0 = None
    for j in range(k):
        dt = rng.choice([0.1, 0.25, 0.5, 1.0, 0.37, 0.05])
        n = max(8, int(dur / dt))
        sig, kind = history_signal(rng, n, dt, t0)
        if "x" not in sig:
            jit = rng.choice([0.0, 0.0, 0.002, 0.05, 0.3])
            if jit:
                sig["jitter"] = dict(amp=jit, seed=rng.randrange(10 ** 9))
        series.append(dict(key=keys[j], name=rng.choice([keys[j], keys[j], "name-differs-from-key"]), sig=sig))
        n0 = n0 or n
    if k > 1 and rng.random() < 0.15:
        series.append(dict(key="again", alias=0))           # the same object under a second key
    fny = min(0.5 / s_["sig"]["dt"] for s_ in series if "sig" in s_)
    u = rng.random()
    twin = None if u < 0.4 else ([t0 - 1.0, t0 + 2 * dur] if u < 0.55 else [t0 + rng.uniform(0.0, 0.3) * dur, t0 + rng.uniform(0.6, 1.0) * dur])
    fargs = pick_fargs(rng, fny) if rng.random() < 0.55 else None
    nps = rng.choice([1, 2, 8, 16, 64, 512, 100000, n0, n0 - 1, n0 + 1, max(1, n0 // 4)])
    spell = dict(args=rng.choice(["pos", "kwcall"]), twin=rng.choice(["tuple", "list"]), fargs=rng.choice(["tuple", "tuple", "list"]),
                 n=rng.choice(["int", "np.int64"]), x=rng.choice(["ndarray", "view", "readonly"]), t=rng.choice(["ndarray", "view", "readonly"]))
    return dict(api="guiopt", series=series, twin=twin, fargs=fargs, nperseg=nps, normalize=rng.random() < 0.3,
                repeat=rng.random() < 0.4, spell=spell)


def gen_plot(rng):
    via = rng.choice(["ts", "db", "db"])
    k = 1 if via == "ts" else rng.randint(1, 3)
    names = ["a", "Tension [kN]", "b", "heave"]
    rng.shuffle(names)
    t0 = rng.choice([0.0, 10.0])
    series = []
    for j in range(k):
        n, dt = rng.randint(40, 300), rng.choice([0.1, 0.25, 0.5, 1.0, 0.37])
        series.append(dict(name=names[j], sig=history_signal(rng, n, dt, t0)[0]))
    opts = {}
    u = rng.random()
    n, dt = series[0]["sig"].get("n", len(series[0]["sig"].get("x", []))), series[0]["sig"]["dt"]
    if u < 0.3 and k == 1:
        opts["twin"] = [t0 + 0.1 * n * dt, t0 + 0.8 * n * dt]
    elif u < 0.6:
        opts["resample"] = max(s_["sig"]["dt"] for s_ in series) * rng.choice([1.0, 2.0])
    sel = None if via == "ts" or rng.random() < 0.5 else rng.choice([series[0]["name"], [s_["name"] for s_ in series][::-1][:rng.randint(1, k)]])
    pa = dict(nperseg=rng.choice([None, 16, 32]), noverlap=rng.choice([None, 0, 4]), nfft=rng.choice([None, 64]),
              normalize=rng.random() < 0.4)
    return dict(api="plot", via=via, series=series, names=sel, psdargs=pa, options=opts)


def gen_sighist(rng):
    n = rng.choice([rng.randint(16, 64), rng.randint(64, 256), 300])
    sig, kind = history_signal(rng, n, 1.0, 0.0)
    npss = [rng.choice([None, 8, 16, n // 2, n]) for _ in range(2)]

    def req():
        nps = rng.choice(npss)
        st = dict(op="psd", dt=rng.choice([pick_dt(rng), 1.0, 0.5, 2.0]))
        if nps is not None or rng.random() < 0.5:
            st["nperseg"] = nps
        if rng.random() < 0.3:
            st["noverlap"] = rng.choice([0, None, 3])
        if rng.random() < 0.2:
            st["nfft"] = rng.choice([None, 512])
        return st
    steps = [req()]
    for _ in range(rng.randint(2, 5)):
        if rng.random() < 0.75:
            op = rng.choice(["scale", "shift", "replace", "poke"])
            if op == "replace":
                steps.append(dict(op="replace", sig=history_signal(rng, n, 1.0, 0.0)[0]))
            else:
                st = gen_update(rng, n, 1.0, 0.0, [op])
                st.pop("how", None)
                steps.append(st)
        steps.append(req())
    return dict(api="sighist", sig=sig, steps=steps, spell=dict(x=rng.choice(["ndarray", "view", "rev"])))


def gen_guifault(rng):
    """one container of 2-4 series with their own step / start / length and a sequence of calculate_psd requests on it, of
    which at least one cannot be fulfilled for one series (any position in the container) or for all of them"""
    k = rng.choice([2, 2, 3, 3, 4])
    t0 = rng.choice([0.0, 0.0, 12.5, -3.0, 1000.0])
    dur = rng.choice([20.0, 40.0, 60.0])
    dts = rng.sample([0.05, 0.1, 0.25, 0.5, 1.0, 0.37], k)
    if rng.random() < 0.25:
        dts[-1] = dts[0]                                    # two series with the same step
        rng.shuffle(dts)
    keys = ["a", "Tension [kN]", "dir/f.ts\\b", "b", "psd"]
    rng.shuffle(keys)
    victim = rng.randrange(k)
    late = rng.random() < 0.5                               # the victim's record starts later / ends earlier than the others
    series, times = [], []
    for j in range(k):
        dt = dts[j]
        n = max(12, int(dur / dt))
        tj = t0
        if j == victim:
            n = max(12, n // 2)
            tj = t0 + (dur - n * dt if late else 0.0)
        sig, _ = history_signal(rng, n, dt, tj)
        if "x" not in sig:
            jit = rng.choice([0.0, 0.0, 0.0, 0.002, 0.05, 0.3])
            if jit:
                sig["jitter"] = dict(amp=jit, seed=rng.randrange(10 ** 9))
        series.append(dict(key=keys[j], name=rng.choice([keys[j], keys[j], "name-differs-from-key"]), sig=sig))
        times.append(materialise(sig)[0])
    fnys = [0.5 / float(np.mean(np.diff(t))) for t in times]
    npool = [8, 16, 64, 256, 1000, 100000]

    def ordinary(sub=None):
        ks = sub or list(range(k))
        u = rng.random()
        tw = None if u < 0.5 else ([t0 - 1.0, t0 + 2 * dur] if u < 0.7 else [t0 + 0.55 * dur, t0 + 0.95 * dur] if late else [t0 + 0.05 * dur, t0 + 0.45 * dur])
        fa = pick_fargs(rng, min(fnys[j] for j in ks)) if rng.random() < 0.4 else None
        c = dict(twin=tw, fargs=fa, nperseg=rng.choice(npool), normalize=rng.random() < 0.25)
        if sub is not None:
            c["keys"] = [keys[j] for j in sub]
        return c

    def fault():
        mode = rng.choice(["nyq", "nyq", "nyq", "twin1", "twin1", "twin0", "badargs"])
        c = dict(twin=None, fargs=None, nperseg=rng.choice(npool), normalize=rng.random() < 0.25)
        if mode == "nyq":
            lv = sorted(set(fnys))
            if len(lv) < 2 or rng.random() < 0.15:
                fc = rng.choice([lv[0], lv[0] * 1.5, lv[-1], lv[-1] * 3.0])      # exactly at a Nyquist frequency / above all of them
            else:
                i = rng.randrange(len(lv) - 1)
                fc = math.sqrt(lv[i] * lv[i + 1])                                # between the Nyquist frequencies of two of the series
            kind = rng.choice(["lp", "lp", "hp", "bp", "bs"])
            c["fargs"] = [kind, round(fc, 6)] if kind in ("lp", "hp") else [kind, round(0.3 * lv[0], 6), round(fc, 6)]
            if rng.random() < 0.3:
                c["twin"] = [t0 - 1.0, t0 + 2 * dur]
        elif mode in ("twin1", "twin0"):
            tv = times[victim]
            if late:                                        # window from before the records up to the victim's first sample (or just short of it)
                end = 0.5 * (tv[0] + tv[1]) if mode == "twin1" else tv[0] - 0.5 * (tv[1] - tv[0])
                c["twin"] = [t0 - 1.0, float(end)]
            else:                                           # window from the victim's last sample (or just after it) to the end of the records
                start = 0.5 * (tv[-2] + tv[-1]) if mode == "twin1" else tv[-1] + 0.5 * (tv[-1] - tv[-2])
                c["twin"] = [float(start), t0 + 2 * dur]
            if rng.random() < 0.3:
                c["fargs"] = pick_fargs(rng, min(fnys))
        else:
            c["fargs"] = rng.choice([["xx", 1.0], ["lp"], ["lp", 0.0], ["bp", round(0.3 * min(fnys), 6)], ["lowpass", round(0.3 * min(fnys), 6)]])
            if rng.random() < 0.2:
                c["fargs"], c["nperseg"] = None, 0
        return c, mode

    calls, modes = [], []
    if rng.random() < 0.35:
        calls.append(ordinary())
    for _ in range(rng.choice([1, 1, 2])):
        c, m = fault()
        calls.append(c)
        modes.append(m)
        if rng.random() < 0.3:
            calls.append(dict(c))                           # the rejected request once more
    u = rng.random()
    calls.append(ordinary())
    if u < 0.5:
        sub = list(range(k))
        rng.shuffle(sub)
        calls.append(ordinary(sub[:rng.randint(1, k)]))     # sub-container of the same objects in another order
    spell = dict(args=rng.choice(["pos", "kwcall"]), twin=rng.choice(["tuple", "list"]), fargs=rng.choice(["tuple", "tuple", "list"]),
                 n=rng.choice(["int", "np.int64"]), x=rng.choice(["ndarray", "view", "readonly"]), t=rng.choice(["ndarray", "view", "readonly"]))
    return dict(api="guifault", series=series, calls=calls, spell=spell), "%s:victim=%s/%d" % (
        "+".join(modes), "first" if victim == 0 else "last" if victim == k - 1 else "middle", k)


def add_faults(rng, case):
    """copy of a history with 1-3 requests inserted that the entry points reject (on the object in use at that moment); the
    requests after them are judged as before"""
    import copy as _copy
    case = _copy.deepcopy(case)
    sig = case["sig"]
    dt = sig["dt"]
    n = sig.get("n", len(sig.get("x", [])))
    t0 = sig.get("t0", 0.0)
    fny = 0.5 / dt
    far = [t0 + (n + 50) * dt * 1000.0, t0 + (n + 90) * dt * 1000.0]

    def one():
        what = rng.choice(["psd", "psd", "psd", "gui", "gui", "modify", "get"])
        if what == "gui":
            u = rng.randrange(5)
            st = dict(op="fault", what="gui", nperseg=rng.choice([8, 64, 512]))
            if u == 0:
                st["fargs"] = [rng.choice(["lp", "hp"]), round(fny * rng.choice([1.0, 1.7, 40.0]), 6)]
            elif u == 1:
                st["fargs"] = rng.choice([["bp", round(0.2 * fny, 6), round(3 * fny, 6)], ["xx", 1.0], ["lp"], ["lp", 0.0], ["lp", -1.0]])
            elif u == 2:
                st["twin"] = far
            elif u == 3:
                st["twin"] = [t0 + 0.2 * dt, t0 + 0.8 * dt]      # no sample / a single sample inside
            else:
                st["nperseg"] = rng.choice([0, -3, "64"])
            return st
        kinds = ["nyq", "badfilter", "far", "resample-type", "unknown-kw"] + (["nperseg", "noverlap", "nfft", "detrend"] if what == "psd" else [])
        u = rng.choice(kinds)
        if u == "nyq":
            kw = dict(filterargs=[rng.choice(["lp", "hp"]), round(fny * rng.choice([1.0, 1.7, 40.0]), 6)])
        elif u == "badfilter":
            kw = dict(filterargs=rng.choice([["xx", 1.0], ["lp"], ["lp", 0.0], ["bs", round(0.2 * fny, 6), round(3 * fny, 6)]]))
        elif u == "far":
            kw = dict(twin=far, resample=dt)
        elif u == "resample-type":
            kw = dict(resample=rng.choice(["fast", 1, None]) or "0.1")
        elif u == "unknown-kw":
            kw = dict(method="welch")
        elif u == "nperseg":
            kw = dict(nperseg=rng.choice([0, -1]))
        elif u == "noverlap":
            kw = dict(nperseg=8, noverlap=rng.choice([8, 9]))
        elif u == "nfft":
            kw = dict(nperseg=8, nfft=4)
        else:
            kw = dict(detrend="nonsense")
        return dict(op="fault", what=what, kwargs=kw)

    steps = case["steps"]
    for _ in range(rng.randint(1, 3)):
        last_req = max(i for i, st in enumerate(steps) if st["op"] in ("psd", "gui"))
        steps.insert(rng.randint(0, last_req), one())       # at least one request follows every fault
    case["timed"] = True
    return case


# ----------------------------------------------------------------------------------------------------------
USES_TRANSLATOR = True          # psd_fs, psd_nperseg_frac are regenerated from qats/signal.py, qats/ts.py
ANCHOR_PREFIX = ("psd_",)


def run(chk):
    from qats import TimeSeries
    from . import c13_long as _cl
    chk.extra["rule"] = RULE + "; long-records: " + " ".join(_cl.__doc__.split())
    chk.partial += [
        "area under the density = variance of a stationary signal: the exact identity area = mean over the segments of "
        "sum((w*y)^2)/sum(w^2) is proved for the model over the reals (Parseval with one-sided folding; theorems "
        "segment_area_is_weighted_meansquare, core_area_is_mean_weighted_meansquare, welch_area_is_mean_weighted_meansquare, psd_area_ts) "
        "and evaluated on the implementation to 1e-9 (stream oracles:parseval, model tie psd.area); that the window-weighted mean square "
        "of a stationary signal is close to its variance is a statistical statement: measured (3 % tolerance; GUI path -8 %/+3 % because "
        "of its 10 % taper), not proved",
        "peak at the frequency of a dominant sinusoid: measured (within one frequency step), not proved",
        "conformance of scipy.signal.welch / numpy FFT to the explicit-DFT definition: measured by the Float correspondence "
        "(1e-9 of the spectrum's peak), the theorems are about the explicit-DFT model",
    ]
    chk.assumptions += [
        "scipy.signal.welch argument handling (nperseg=None -> 256, clip to the signal length, noverlap=None -> nperseg//2, "
        "nfft=None -> nperseg, ValueError for nperseg < 1 / nfft < nperseg / noverlap >= nperseg, segments without padding) as "
        "stated in the header of lean/Qats/Model/Welch.lean",
        "periodic Hann window 0.5 - 0.5 cos(2 pi i / N); np.isclose(a, b, rtol, atol) = |a - b| <= atol + rtol |b|; "
        "np.linspace / linear interpolation semantics; resampling to the mean step keeps the number of samples",
        "float tolerance of the correspondence: frequencies 1e-12 relative, densities 1e-9 of the spectrum's peak "
        "(observed agreement ~1e-15)",
    ]
    rng = chk.rng
    drv = core.Driver()
    q = chk.quick
    from .c13_gen import run_gen
    run_gen(chk, drv)           # regenerated expressions psd_fs / psd_nperseg_frac against the arguments handed to scipy
    lines, meta = [], []
    oracle_cases = []

    def add(case, line, nontrivial, label):
        lines.append(line)
        meta.append(case)
        oracle_cases.append(case)
        chk.dist(label)
        if nontrivial:
            chk.nontriv(repr(case))

    # ---- past failures first --------------------------------------------------------------------------------------
    for c in core.load_corpus("C13"):
        oracle_cases.append(c)
        chk.dist("corpus")

    # ---- signal.psd -------------------------------------------------------------------------------------------------
    for _ in range(200 if q else 4000):
        n, dt = pick_n(rng), pick_dt(rng)
        sig, kind = short_signal(rng, n, dt)
        nps, nov, nf = pick_args(rng, n, 256)
        case = dict(api="signal", sig=sig, nperseg=nps, noverlap=nov, nfft=nf,
                    checks=["definition", "grid", "nonneg", "scale", "shift", "timeunit"], a=rng.choice(AMPS),
                    c=rng.choice([1000.0, -3.25, 1.0]), k=rng.choice([60.0, 0.001, 3.0, 2.0 ** 30, 2.0 ** -30]))
        sp = pick_spell(rng, "signal")
        if sp:
            case["spell"] = sp
        t, x = materialise(sig)
        add(case, "psd.welch %s %s %s %s %s" % (fbits(dt), arg(nps), arg(nov), arg(nf), floats(x)),
            kind != "const" and segs(n, nps, nov, 256) >= 2, "signal:%s:%s" % (kind, "segs>=2" if segs(n, nps, nov, 256) >= 2 else "segs<2"))

    # ---- TimeSeries.psd ---------------------------------------------------------------------------------------------------
    for _ in range(200 if q else 4000):
        n, dt = max(2, pick_n(rng)), pick_dt(rng)
        sig, kind = short_signal(rng, n, dt)
        u = rng.random()
        checks = ["definition", "grid", "nonneg", "scale", "shift", "normalised", "default"]
        if "x" in sig:
            jit = 0.0
        elif u < 0.45:
            jit = 0.0
        elif u < 0.7:
            jit = rng.choice([1e-4, 0.002])
            checks.append("guard_accept")
        else:
            jit = rng.choice([0.02, 0.05, 0.1])
        if jit:
            sig["jitter"] = dict(amp=jit, seed=rng.randrange(10 ** 9))
        nps, nov, nf = pick_args(rng, n, n // 4)
        if nps == 0 and rng.random() < 0.5:
            nps = None
        case = dict(api="ts", sig=sig, nperseg=nps, noverlap=nov, nfft=nf, normalize=rng.random() < 0.35, checks=checks,
                    a=rng.choice(AMPS), c=rng.choice([1000.0, -3.25, 1.0]), k=rng.choice([60.0, 0.001, 1024.0, 2.0 ** -20]))
        if not jit:
            checks.append("timeunit")
        sp = pick_spell(rng, "ts")
        if sp:
            case["spell"] = sp
        t, x = materialise(sig)
        d = np.diff(t)
        spread, thr = abs(d.min() - d.max()), 1e-6 + 1e-2 * abs(d.max())
        if abs(spread - thr) < 1e-9 * thr:
            continue                                        # on the rounding boundary of the guard: not decidable in floats
        if spread > 2 * thr and d.min() > 0 and spread > 0.01 * d.max() + 2e-6:
            case["checks"] = checks + ["guard_reject"]
        add(case, "psd.ts %s %s %s %s %s | %s" % (arg(nps), arg(nov), arg(nf), "1" if case["normalize"] else "0", floats(t), floats(x)),
            kind != "const" and segs(n, nps, nov, n // 4) >= 2,
            "ts:%s:jitter=%g:%s" % (kind, jit, "norm" if case["normalize"] else "plain"))

    # ---- app.funcs.calculate_psd ----------------------------------------------------------------------------------------------
    for _ in range(100 if q else 2000):
        n, dt = max(2, pick_n(rng)), pick_dt(rng)
        sig, kind = short_signal(rng, n, dt)
        jit = 0.0 if "x" in sig else rng.choice([0.0, 0.0, 0.002, 0.05, 0.3])
        if jit:
            sig["jitter"] = dict(amp=jit, seed=rng.randrange(10 ** 9))
        nps = rng.choice([1, 2, 8, 16, 32, 64, 512, n, n + 1, max(1, n - 1), max(1, n // 2), max(1, n // 4)])
        case = dict(api="gui", sig=sig, nperseg=nps, normalize=rng.random() < 0.3,
                    checks=["ok", "grid", "nonneg", "scale", "shift", "normalised", "clip"] + ([] if jit else ["timeunit"]),
                    a=rng.choice(AMPS), c=rng.choice([1000.0, -3.25, 1.0]), k=rng.choice([60.0, 64.0, 2.0 ** -10, 0.001]))
        sp = pick_spell(rng, "gui")
        if sp:
            case["spell"] = sp
        t, x = materialise(sig)
        add(case, "psd.gui %d %s %s | %s" % (nps, "1" if case["normalize"] else "0", floats(t), floats(x)),
            kind != "const" and segs(n, nps, None, 1) >= 2, "gui:%s:jitter=%g" % (kind, jit))
        if rng.random() < 0.5:
            lines.append("psd.guisig %s | %s" % (floats(t), floats(x)))
            meta.append(dict(api="guisig", sig=sig))
        if jit == 0.0 and n >= 12 and rng.random() < 0.5:
            # time window on a uniform series = the GUI path applied to the cropped series
            i0, i1 = sorted(rng.sample(range(n), 2))
            if i1 - i0 >= 3:
                tw = [float(t[i0] - 0.25 * dt), float(t[i1] + 0.25 * dt)]
                lines.append("psd.gui %d %s %s | %s" % (nps, "1" if case["normalize"] else "0", floats(t[i0:i1 + 1]), floats(x[i0:i1 + 1])))
                meta.append(dict(case, twin=tw, checks=[]))
                chk.dist("gui:twin")

    # ---- processing options of TimeSeries.psd: the definition applied to the processed series ------------------------------------------------
    def add_processed(case):
        """model tie: Lean's `psdTs` on the processed arrays against the implementation called with the options"""
        got = impl_processed(case)
        if got is None or got[1].size > 200 or (got[5] or 0) > 400:
            return
        r, tp, xp, nps_, nov_, nf_, norm_ = got
        lines.append("psd.ts %s %s %s %s %s | %s" % (arg(nps_), arg(nov_), arg(nf_), "1" if norm_ else "0", floats(tp), floats(xp)))
        meta.append(dict(api="processed", case=case, got=got))

    for _ in range(150 if q else 3000):
        case, kind = gen_tsopt(rng)
        oracle_cases.append(case)
        chk.nontriv(repr(case))
        chk.dist("tsopt:" + "+".join(sorted(k for k in case["options"] if k != "as_list")))
        add_processed(case)

    # ---- GUI path: containers of several series, time window and filter arguments, against the spelled-out chain ---------------------------
    for _ in range(80 if q else 1500):
        case = gen_guiopt(rng)
        oracle_cases.append(case)
        chk.nontriv(repr(case))
        chk.dist("guiopt:series=%d:%s%s" % (len(case["series"]), "twin" if case["twin"] else "-", "+fargs" if case["fargs"] else ""))
        if len(case["series"]) == 1:
            add_processed(case)

    # ---- exact area identity (Parseval): model's two sides against the implementation's two sides ------------------------------------------
    for k in range(120 if q else 1200):
        case, kind, mode = gen_parseval(rng, long=False)
        t, x = materialise(case["sig"])
        oracle_cases.append(case)
        chk.dist("parseval:%s:%s:%s" % (mode, "even" if x.size % 2 == 0 else "odd", kind))
        if kind != "const" and x.size >= 3:
            chk.nontriv(repr(case))
        lines.append("psd.area %s %s %s %s %s" % (fbits(case["sig"]["dt"]), arg(case["nperseg"]), arg(case["noverlap"]), arg(case["nfft"]), floats(x)))
        meta.append(dict(api="area", case=case))
    for k in range(8 if q else 120):
        case, kind, mode = gen_parseval(rng, long=True)
        oracle_cases.append(case)
        chk.nontriv(repr(case))
        chk.dist("parseval:long:%s:%s" % (mode, "even" if case["sig"].get("n", 0) % 2 == 0 else "odd"))

    # ---- model vs implementation --------------------------------------------------------------------------------------------------
    outs = drv.run(lines, shards=min(core.NCPU, 8))
    for case, o in zip(meta, outs):
        if case["api"] == "processed":
            # TimeSeries.psd(**options) / calculate_psd(twin, fargs) against the model applied to the processed arrays
            im, tp, xp, nps_, nov_, nf_, norm_ = case["got"]
            stream = "psd.ts/processed" if case["case"]["api"] == "tsopt" else "psd.gui/processed"
            chk.count(stream)
            m = parse(o)
            inp = case["case"]
            if im[0] != m[0] or (im[0] == "err" and im[1] != m[1]):
                chk.disagree(stream, inp, list(m[:2]) if m[0] == "err" else "spectrum", list(im[:2]) if im[0] == "err" else "spectrum")
                continue
            if im[0] == "err":
                continue
            dtp = float(np.mean(np.diff(tp)))
            rt = _ratio(xp)
            noise = not np.isfinite(rt) or (norm_ and is_noise(_ref_outcome(tp, xp, nps_, nov_, nf_, False), xp, dtp))
            sc = 1.0 if norm_ else max(scale_of(im[2], xp, dtp), scale_of(m[2], xp, dtp))
            fsc = 1e-12 * (float(np.max(np.abs(im[1]))) if im[1].size else 0.0) + 1e-300
            if not same(m[1], im[1], fsc) or (not noise and not same(m[2], im[2], (1e-9 + 4e-15 * rt) * sc)):
                chk.disagree(stream, inp, dict(f=brief(m[1]), p=brief(m[2])), dict(f=brief(im[1]), p=brief(im[2])))
            continue
        if case["api"] == "area":
            # the model's area and its mean weighted mean square against the same two quantities of the implementation
            chk.count("psd.area")
            inp = case["case"]
            try:
                import qats.signal
                tt, xx = materialise(inp["sig"])
                kw = {k_: v_ for k_, v_ in (("noverlap", inp.get("noverlap")), ("nfft", inp.get("nfft"))) if v_ is not None}
                f_, p_ = qats.signal.psd(xx, inp["sig"]["dt"], nperseg=inp["nperseg"], **kw)
                ia, ir, _, _ = parseval_sides(xx, inp["sig"]["dt"], f_, p_, inp["nperseg"], inp.get("noverlap"), inp.get("nfft"))
                toks = o.split()
                if toks[0] != "ok" or len(toks) != 3:
                    chk.disagree("psd.area", inp, o, [ia, ir])
                    continue
                ma, mr = unfbits(toks[1]), unfbits(toks[2])
                tol = parseval_tol(xx, ir)
                if not (abs(ma - ia) <= tol and abs(mr - ir) <= tol and abs(ma - mr) <= tol):
                    chk.disagree("psd.area", inp, dict(area=ma, mean_weighted_meansquare=mr), dict(area=ia, mean_weighted_meansquare=ir))
            except Exception as e:  # noqa
                chk.disagree("psd.area", inp, o, "%s: %s" % (type(e).__name__, str(e)[:80]))
            continue
        t, x = materialise(case["sig"])
        if case["api"] == "guisig":
            chk.count("psd.guisig")
            ts = TimeSeries("a", t, x)
            try:
                tt, xx = ts.get(resample=ts.dt, taperfrac=0.1)
                im = ("ok", tt, xx)
            except Exception as e:  # noqa
                im = ("err", "exc:" + type(e).__name__)
            m = parse(o)
            amp = float(np.max(np.abs(x))) + 1e-300
            if im[0] != m[0] or (im[0] == "ok" and not (same(m[1], im[1], 1e-12 * (float(np.max(np.abs(t))) + 1e-300))
                                                        and same(m[2], im[2], 1e-10 * amp))):
                chk.disagree("psd.guisig", dict(sig=case["sig"]), brief(m[2]) if m[0] == "ok" else list(m),
                             brief(im[2]) if im[0] == "ok" else list(im))
            continue
        stream = {"signal": "psd.welch", "ts": "psd.ts", "gui": "psd.gui"}[case["api"]]
        chk.count(stream)
        im, m = call(case, t, x), parse(o)
        inp = {k: v for k, v in case.items() if k not in ("checks", "a", "c", "k")}
        if case.get("spell"):
            chk.dist("spelled:%s" % case["api"])
        if im[0] != m[0] or (im[0] == "err" and im[1] != m[1]):
            chk.disagree(stream, inp, list(m[:2]) if m[0] == "err" else "spectrum", list(im[:2]) if im[0] == "err" else "spectrum")
            continue
        if im[0] == "err":
            chk.dist("outcome:err " + im[1])
            continue
        chk.dist("outcome:ok")
        dt = case["sig"]["dt"] if case["api"] == "signal" else float(np.mean(np.diff(t)))
        sc = 1.0 if case.get("normalize") else max(scale_of(im[2], x, dt), scale_of(m[2], x, dt))
        fsc = 1e-12 * (float(np.max(np.abs(im[1]))) if im[1].size else 0.0) + 1e-300
        noise = bool(case.get("normalize")) and is_noise(call(dict(case, normalize=False), t, x), x, dt)
        if not same(m[1], im[1], fsc) or (not noise and not same(m[2], im[2], 1e-9 * sc)):
            chk.disagree(stream, inp, dict(f=brief(m[1]), p=brief(m[2])), dict(f=brief(im[1]), p=brief(im[2])))
        if len(chk.samples) < 3 and im[1].size >= 3 and x.size <= 16:
            chk.sample(dict(inp, f=brief(im[1], 4), p=brief(im[2], 4)))

    # ---- long stationary signals: area, peak (and the general clauses) ----------------------------------------------------------------
    for _ in range(60 if q else 1500):
        n = rng.choice([512, 1024, 2000, 4096, 5000] + ([] if q else [8192]))
        dt = rng.choice([0.05, 0.1, 0.25, 0.5, 1.0, 2.0, 0.37])
        api = rng.choice(["signal", "ts", "ts", "gui"])
        nps = rng.choice([128, 256, n // 4, n // 8]) if api != "ts" else rng.choice([None, None, 128, 256, n // 8])
        eff = n // 4 if nps is None else nps
        df, fny = 1.0 / (eff * dt), 0.5 / dt
        fs, tries = [], 0
        k = rng.randint(1, 4)
        while len(fs) < k and tries < 200:
            tries += 1
            fc = rng.uniform(6 * df, fny - 6 * df)
            if all(abs(fc - g) >= 5 * df for g in fs):
                fs.append(fc)
        a0 = rng.uniform(1, 3)
        tones = [[a0, fs[0], rng.uniform(0, 2 * math.pi)]] + [[a0 * rng.uniform(0.05, 0.33), g, rng.uniform(0, 2 * math.pi)] for g in fs[1:]]
        sig = dict(n=n, dt=dt, t0=rng.choice([0.0, 100.0]), offset=rng.choice([0.0, 5.0, -300.0, 1000.0]), tones=tones,
                   noise_sd=rng.choice([0.0, 0.0, 0.05]) * a0, noise_seed=rng.randrange(10 ** 9))
        # (uniform sampling only: the property is about uniformly sampled signals; on the GUI path a varying step is resampled by
        #  linear interpolation, which attenuates the upper half of the band and so does not preserve the variance)
        case = dict(api=api, sig=sig, nperseg=nps, checks=["ok", "area", "peak", "grid", "nonneg", "scale", "shift"] +
                    (["definition", "timeunit"] if api == "signal" else []) + (["definition", "normalised", "default"] if api == "ts" else []) +
                    (["normalised", "clip"] if api == "gui" else []), a=rng.choice([-2.5, 0.3, 7.0]), c=rng.choice([1000.0, -3.25]),
                    k=rng.choice([60.0, 0.001]))
        if api != "signal":
            case["normalize"] = False
            case["checks"].append("timeunit")
            case["k"] = rng.choice([60.0, 0.001, 1024.0])
        sp = pick_spell(rng, api, plain=0.6)
        if sp:
            case["spell"] = dict(sp, x=sp["x"] if sp["x"] in ("ndarray", "list", "tuple", "view", "rev", "readonly") else "ndarray")
        oracle_cases.append(case)
        chk.nontriv(repr(case))
        chk.dist("long:%s:dt=%g" % (api, dt))

    # ---- long records: lengths / segment lengths / segment counts around 1000, 1024, 4096, 10000, 65536; structure in the last segment ------
    from . import c13_long
    for case, label in c13_long.gen_long(chk, pick_spell):
        oracle_cases.append(case)
        chk.nontriv(repr(case))
        chk.dist(label)
        chk.dist("long-records:n=%d" % (case["sig"]["n"] if "sig" in case else max(s_["sig"]["n"] for s_ in case["series"])))
    # ---- dedicated guard / default cases --------------------------------------------------------------------------------------------------
    for _ in range(30 if q else 500):
        n, dt = rng.randint(8, 120), pick_dt(rng)
        big = rng.random() < 0.6
        amp = rng.choice([0.03, 0.06, 0.2]) if big else rng.choice([0.0, 1e-5, 0.002])
        sig = dict(n=n, dt=dt, t0=0.0, offset=0.0, noise_sd=1.0, noise_seed=rng.randrange(10 ** 9))
        if amp:
            sig["jitter"] = dict(amp=amp, seed=rng.randrange(10 ** 9))
        t, _ = materialise(sig)
        d = np.diff(t)
        if big and not (d.max() - d.min() > 0.011 * d.max() + 2e-6):
            continue
        case = dict(api="ts", sig=sig, nperseg=rng.choice([None, 8]), normalize=False,
                    checks=["definition", "guard_reject"] if big else ["definition", "guard_accept", "default", "ok"])
        sp = pick_spell(rng, "ts")
        if sp:
            case["spell"] = sp
        oracle_cases.append(case)
        chk.dist("guard:%s" % ("reject" if big else "accept"))
    # single deviating steps on an otherwise uniform grid (a dropped sample, one late and one early sample)
    for _ in range(20 if q else 300):
        n, dt = rng.randint(8, 120), rng.choice([0.1, 0.25, 0.5, 1.0, 2.0, 3.7, 0.05])
        kind = rng.choice(["gap", "pair-reject", "pair-accept", "one-reject", "one-accept"])
        i, j = rng.sample(range(n - 1), 2)
        outl = {"gap": [[i, 2.0]], "pair-reject": [[i, 1.006], [j, 0.994]], "pair-accept": [[i, 1.004], [j, 0.996]],
                "one-reject": [[i, rng.choice([1.015, 0.985, 0.5, 1.1])]], "one-accept": [[i, rng.choice([1.005, 0.995, 1.0])]]}[kind]
        sig = dict(n=n, dt=dt, t0=rng.choice([0.0, 50.0]), offset=0.0, noise_sd=1.0, noise_seed=rng.randrange(10 ** 9), outliers=outl)
        rej = "reject" in kind or kind == "gap"
        case = dict(api="ts", sig=sig, nperseg=rng.choice([None, 8]), normalize=False,
                    checks=["definition", "guard_reject"] if rej else ["definition", "guard_accept", "ok"])
        oracle_cases.append(case)
        chk.dist("guard:%s" % kind)

    # ---- processing options: the spectrum of the *processed* series (its own sampling interval) ---------------------------------------------
    for _ in range(12 if q else 150):
        n = rng.choice([400, 600, 1024])
        dt0 = rng.choice([0.1, 0.2, 0.5])
        t = np.arange(n) * dt0
        x = np.sin(2 * np.pi * 0.2 / dt0 / 5 * t) + 0.3 * np.cos(2 * np.pi * 0.9 / dt0 / 5 * t) + 0.01 * np.array([rng.uniform(-1, 1) for _ in range(n)])
        ts = TimeSeries("a", t, x)
        opt = rng.choice(["resample", "twin", "both"])
        kw = {}
        if opt in ("resample", "both"):
            kw["resample"] = dt0 * rng.choice([2.0, 3.0, 0.5, 2.5])
        if opt in ("twin", "both"):
            kw["twin"] = (float(t[n // 8]), float(t[-n // 8]))
        nps = rng.choice([None, 64, 100])
        chk.count("oracles:ts-options")
        inp = dict(kind="ts-options", n=n, dt=dt0, options={k: (list(v) if isinstance(v, tuple) else v) for k, v in kw.items()}, nperseg=nps)
        try:
            f, pp = ts.psd(nperseg=nps, **kw)
            tp, xp = ts.get(**kw)
            fr, pr = ref_ts(np.asarray(tp), np.asarray(xp), nps, None, None, False)
        except Exception as e:
            chk.fail("the spectrum with processing options is that of the processed series", inp, "spectrum", type(e).__name__ + ": " + str(e)[:60])
            continue
        if not (same(f, fr, 1e-9 * (1 + abs(fr[-1]))) and same(pp, pr, 1e-9 * float(np.max(pr)))):
            chk.fail("with processing options (window / resampling) the spectrum is the Welch density of the processed series, "
                     "frequencies from 0 to 1/(2 dt') of ITS sampling interval", inp,
                     dict(f_last=float(fr[-1]), peak_f=float(fr[np.argmax(pr)])), dict(f_last=float(f[-1]), peak_f=float(f[np.argmax(pp)])))

    # ---- operation histories: requests interleaved with data updates on long-lived objects ----------------------------------------------
    for k in range(150 if q else 3000):
        case = gen_history(rng, long=(k % 6 == 5))
        oracle_cases.append(case)
        ops = [st["op"] for st in case["steps"]]
        if sum(o in ("psd", "gui") for o in ops) >= 2 and any(o in ("scale", "shift", "replace", "poke", "modify") for o in ops):
            chk.nontriv(repr(case))
        chk.dist("history:%s:%s" % ("long" if case["checks"] else "short", "+".join(sorted(set(ops) - {"psd", "gui"})) or "repeat"))

    # ---- plotting wrappers (TimeSeries.plot_psd, TsDB.plot_psd): the curves drawn -------------------------------------------------------------
    for _ in range(12 if q else 150):
        case = gen_plot(rng)
        oracle_cases.append(case)
        chk.dist("plot:" + case["via"])

    # ---- signal.psd: histories on one array object the caller keeps --------------------------------------------------------------------------------
    for _ in range(60 if q else 1200):
        case = gen_sighist(rng)
        oracle_cases.append(case)
        chk.nontriv(repr(case))
        chk.dist("sighist")

    # ---- fault points: requests that are rejected for one series of a container / on a long-lived object, the same objects used again -------
    for _ in range(60 if q else 1200):
        case, label = gen_guifault(rng)
        oracle_cases.append(case)
        chk.nontriv(repr(case))
        chk.dist("guifault:" + label)
    hist = [c for c in oracle_cases if c.get("api") == "history" and not c.get("timed")
            and sum(st["op"] in ("psd", "gui") for st in c["steps"]) >= 2]
    for _ in range(min(len(hist), 50 if q else 1000)):
        case = add_faults(rng, rng.choice(hist))
        oracle_cases.append(case)
        chk.nontriv(repr(case))
        chk.dist("history+faults:%s" % ("long" if case["checks"] else "short"))

    # ---- evaluate the clauses -----------------------------------------------------------------------------------------------------------------
    for case in oracle_cases:
        chk.count("oracles:" + case["api"])
        for clause, exp, obs in safe_evaluate(case):
            chk.fail(clause, case, exp, obs)
    chk.sample(dict(note="rational model example", x=[1, 0, -1, 0, 1, 0, -1, 0], fs=2, nperseg=4, f=["0", "1/2", "1"], p=["1/3", "2/3", "1/3"]))


def replay(rp):
    case = rp["input"]
    if case.get("kind") == "stamps":
        # (the local time zone of the failing run is part of the input)
        import time as _time
        from datetime import datetime, timedelta
        from qats import TimeSeries
        if case.get("TZ"):
            os.environ["TZ"] = case["TZ"]
            if hasattr(_time, "tzset"):
                _time.tzset()
        n, dt = case["n"], case["dt"]
        t = np.arange(n) * dt
        x = np.sin(2 * np.pi * t / (12 * dt)) + 0.3 * np.sin(2 * np.pi * t / (5 * dt))
        t0 = datetime.fromisoformat(case["start"])
        try:
            f0, p0 = TimeSeries("s", t, x).psd()
            f1, p1 = TimeSeries("s", np.array([t0 + timedelta(seconds=float(v)) for v in t]), x).psd()
            ok = np.shape(f0) == np.shape(f1) and np.allclose(f0, f1, rtol=1e-9, atol=0) and np.allclose(p0, p1, rtol=1e-9, atol=1e-300)
        except Exception as e:      # noqa
            print("raised %s: %s" % (type(e).__name__, e))
            ok = False
        print("replay: %d failing clause(s)" % (0 if ok else 1))
        return 0 if ok else 1
    if case.get("kind") == "ts-options":
        from qats import TimeSeries
        n, dt0 = case["n"], case["dt"]
        t = np.arange(n) * dt0
        x = np.sin(2 * np.pi * 0.2 / dt0 / 5 * t) + 0.3 * np.cos(2 * np.pi * 0.9 / dt0 / 5 * t)
        kw = {k: (tuple(v) if isinstance(v, list) else v) for k, v in case["options"].items()}
        ts = TimeSeries("a", t, x)
        f, pp = ts.psd(nperseg=case["nperseg"], **kw)
        tp, xp = ts.get(**kw)
        fr, pr = ref_ts(np.asarray(tp), np.asarray(xp), case["nperseg"], None, None, False)
        ok = same(f, fr, 1e-9 * (1 + abs(fr[-1]))) and same(pp, pr, 1e-9 * float(np.max(pr)))
        print("last frequency: implementation %g, processed series %g" % (f[-1], fr[-1]))
        print("replay: %d failing clause(s)" % (0 if ok else 1))
        return 0 if ok else 1
    bad = safe_evaluate(case)
    for clause, exp, obs in bad:
        print("FAILS:", clause)
        print("   expected:", exp)
        print("   observed:", obs)
    if case.get("api") == "guifault":
        print("series:", ", ".join("%r (dt %g, %d samples from t = %g)" % (s_["key"], s_["sig"]["dt"], s_["sig"].get("n", len(s_["sig"].get("x", []))),
                                                                         s_["sig"].get("t0", 0.0)) for s_ in case["series"]))
        for i, c in enumerate(case["calls"]):
            print("call %d:" % i, {k: v for k, v in c.items() if v is not None and v is not False})
    if case.get("api") in ("history", "sighist"):
        print("history:", " -> ".join(st["op"] + ("(%r)" % st["v"] if "v" in st else "") + ("[%s %s]" % (st["what"], st.get("kwargs") or {k: st[k] for k in ("twin", "fargs", "nperseg") if k in st})
                                                                                            if st["op"] == "fault" else "") for st in case["steps"]))
    if case.get("api") == "parseval":
        try:
            import qats.signal
            t, x = materialise(case["sig"])
            kw = {k_: v_ for k_, v_ in (("noverlap", case.get("noverlap")), ("nfft", case.get("nfft"))) if v_ is not None}
            f_, p_ = qats.signal.psd(x, case["sig"]["dt"], nperseg=case["nperseg"], **kw)
            ia, ir, nseg, df = parseval_sides(x, case["sig"]["dt"], f_, p_, case["nperseg"], case.get("noverlap"), case.get("nfft"))
            print("signal.psd: n = %d, %d segment(s), df = %g, area = %.12g, mean of sum((w*y)^2)/sum(w^2) = %.12g" % (x.size, nseg, df, ia, ir))
            if x.size <= 512:
                o = core.Driver().run(["psd.area %s %s %s %s %s" % (fbits(case["sig"]["dt"]), arg(case["nperseg"]), arg(case.get("noverlap")),
                                                                    arg(case.get("nfft")), floats(x))])[0].split()
                if o[0] == "ok":
                    print("model:      area = %.12g, mean of sum((w*y)^2)/sum(w^2) = %.12g" % (unfbits(o[1]), unfbits(o[2])))
        except Exception as e:  # noqa
            print("(sides not evaluated: %s)" % e)
    if case.get("api") in ("signal", "ts", "gui") and not case.get("twin"):
        # also show the model's answer
        try:
            t, x = materialise(case["sig"])
            drv = core.Driver()
            if case["api"] == "signal":
                ln = "psd.welch %s %s %s %s %s" % (fbits(case["sig"]["dt"]), arg(case.get("nperseg")), arg(case.get("noverlap")),
                                                  arg(case.get("nfft")), floats(x))
            elif case["api"] == "ts":
                ln = "psd.ts %s %s %s %s %s | %s" % (arg(case.get("nperseg")), arg(case.get("noverlap")), arg(case.get("nfft")),
                                                    "1" if case.get("normalize") else "0", floats(t), floats(x))
            else:
                ln = "psd.gui %d %s %s | %s" % (case["nperseg"], "1" if case.get("normalize") else "0", floats(t), floats(x))
            if x.size <= 512:
                m, im = parse(drv.run([ln])[0]), call(case, t, x)
                print("model:", brief(m[2]) if m[0] == "ok" else list(m))
                print("impl: ", brief(im[2]) if im[0] == "ok" else list(im))
        except Exception as e:  # noqa
            print("(model not evaluated: %s)" % e)
    print("replay: %d failing clause(s)" % len(bad))
    return 1 if bad else 0
