"""
Core plumbing shared by all property checks (see DESIGN.md section 2.4):

  prove()        regenerate translator output, `lake build Qats.Props.<id>`, axiom audit, forbidden-token scan
  Driver         line protocol to the executable Lean model (`lake env lean --run Driver.lean`)
  Check          collects tie statistics, disagreements and failing inputs; decides the verdict;
                 writes evidence/<id>.json and replay files; prints VIOLATION / KNOWN-FINDING lines

Exit codes: 0 held, 1 violation, 2 infrastructure failure.
"""
import contextlib
import hashlib
import json
import os
import random
import re
import subprocess
import sys
import time
from concurrent.futures import ThreadPoolExecutor
from fractions import Fraction

VERIF = os.path.dirname(os.path.dirname(os.path.abspath(__file__)))
LEAN = os.path.join(VERIF, "lean")
REPO = os.environ.get("QATS_REPO", "/repo")
ALLOWED_AXIOMS = {"propext", "Classical.choice", "Quot.sound"}
FORBIDDEN = re.compile(r"\b(sorry|admit|native_decide|bv_decide|implemented_by|unsafe)\b|^\s*axiom\s|maxHeartbeats\s+0\b",
                       re.M)
NCPU = os.cpu_count() or 4


class InfraError(Exception):
    pass


def sh(cmd, cwd=None, timeout=3600, input=None):
    p = subprocess.run(cmd, cwd=cwd, capture_output=True, text=True, timeout=timeout, input=input)
    return p.returncode, p.stdout, p.stderr


def repo_head():
    rc, out, _ = sh(["git", "-C", REPO, "rev-parse", "HEAD"])
    rc2, out2, _ = sh(["git", "-C", REPO, "status", "--porcelain", "--untracked-files=no"])
    return out.strip() + ("+dirty" if out2.strip() else "")


# ----------------------------------------------------------------------------------------------------------
# number formatting for the line protocol
# ----------------------------------------------------------------------------------------------------------
def rat(x):
    """exact rational text of a python int/float/Fraction"""
    f = Fraction(x)
    return str(f.numerator) if f.denominator == 1 else "%d/%d" % (f.numerator, f.denominator)


def unrat(s):
    return Fraction(s)


def fbits(x):
    import struct
    return "%016x" % struct.unpack("<Q", struct.pack("<d", float(x)))[0]


def unfbits(s):
    import struct
    return struct.unpack("<d", struct.pack("<Q", int(s, 16)))[0]


# ----------------------------------------------------------------------------------------------------------
# Lean side
# ----------------------------------------------------------------------------------------------------------
_built = set()


class _LakeLock:
    """serialise `lake build` calls of concurrently running checks (they share lean/.lake)"""

    def __enter__(self):
        import fcntl
        os.makedirs(os.path.join(LEAN, ".lake"), exist_ok=True)
        self.fh = open(os.path.join(LEAN, ".lake", "verif.lock"), "w")
        fcntl.flock(self.fh, fcntl.LOCK_EX)

    def __exit__(self, *a):
        import fcntl
        fcntl.flock(self.fh, fcntl.LOCK_UN)
        self.fh.close()


def lake_build(targets, timeout=3000):
    with _LakeLock():
        rc, out, err = sh(["lake", "build"] + list(targets), cwd=LEAN, timeout=timeout)
    return rc, out + err


def load_corpus(pid):
    """minimised past failures and known-finding inputs; always run first"""
    d = os.path.join(VERIF, "corpus", pid)
    out = []
    if os.path.isdir(d):
        for fn in sorted(os.listdir(d)):
            if fn.endswith(".json"):
                j = json.load(open(os.path.join(d, fn)))
                out += j if isinstance(j, list) else [j]
    return out


def leancheck(chk):
    """thorough tier: re-elaborate the property module from scratch and re-check its .olean with leanchecker"""
    pid = chk.pid
    if chk.proof is None or chk.proof.get("error"):
        return
    base = os.path.join(LEAN, ".lake", "build", "lib", "lean", "Qats", "Props", pid)
    with _LakeLock():
        for ext in (".olean", ".ilean", ".trace", ".olean.hash", ".ilean.hash"):
            try:
                os.unlink(base + ext)
            except OSError:
                pass
        rc, out, err = sh(["lake", "build", "Qats.Props." + pid], cwd=LEAN, timeout=3000)
        if rc != 0:
            chk.proof["error"] = "clean rebuild failed: " + (out + err)[-3000:]
            chk.proof["failed"] = chk.proof["theorems"]
            chk.proof["discharged"] = 0
            return
        rc, out, err = sh(["lake", "env", "leanchecker", "Qats.Props." + pid], cwd=LEAN, timeout=3000)
    chk.extra["leanchecker"] = dict(rc=rc, tail=(out + err)[-300:])
    if rc != 0:
        chk.proof["error"] = "leanchecker rejected Qats.Props.%s: %s" % (pid, (out + err)[-2000:])
        chk.proof["failed"] = chk.proof["theorems"]
        chk.proof["discharged"] = 0


def strip_comments(src):
    """remove Lean block and line comments (nesting-aware) so token scans ignore prose"""
    out = []
    i, depth, n = 0, 0, len(src)
    while i < n:
        if src.startswith("/-", i):
            depth += 1
            i += 2
        elif depth and src.startswith("-/", i):
            depth -= 1
            i += 2
        elif depth:
            i += 1
        elif src.startswith("--", i):
            while i < n and src[i] != "\n":
                i += 1
        else:
            out.append(src[i])
            i += 1
    return "".join(out)


def theorem_names(pid):
    path = os.path.join(LEAN, "Qats", "Props", pid + ".lean")
    src = strip_comments(open(path).read())
    ns = re.search(r"^namespace\s+(\S+)", src, re.M)
    prefix = (ns.group(1) + ".") if ns else ""
    return [prefix + m for m in re.findall(r"^(?:protected\s+)?theorem\s+([^\s:({\[]+)", src, re.M)]


def lean_import_closure(pid):
    """our own .lean files the property module depends on (for the forbidden-token scan)"""
    seen, todo = set(), ["Qats.Props." + pid]
    while todo:
        m = todo.pop()
        if m in seen:
            continue
        p = os.path.join(LEAN, *m.split(".")) + ".lean"
        if not os.path.exists(p):
            continue
        seen.add(m)
        for imp in re.findall(r"^import\s+(\S+)", open(p).read(), re.M):
            if imp.startswith("Qats"):
                todo.append(imp)
    return sorted(seen)


def prove(pid, translate=True, prefixes=()):
    """Returns dict(obligations, discharged, failed=[...], error=str|None, theorems=[...], axioms={...})"""
    t0 = time.time()
    res = dict(obligations=0, discharged=0, failed=[], error=None, theorems=[], axioms={}, translator=None)
    if translate:
        from . import translate as tr
        res["translator"] = tr.regenerate()
        terr = {k: v for k, v in res["translator"]["errors"].items() if k.startswith(tuple(prefixes))} if prefixes else {}
        res["translator_errors"] = terr
    names = theorem_names(pid)
    res["theorems"] = names
    res["obligations"] = len(names)
    # forbidden tokens in our own sources
    bad = []
    for m in lean_import_closure(pid):
        p = os.path.join(LEAN, *m.split(".")) + ".lean"
        hit = FORBIDDEN.search(strip_comments(open(p).read()))
        if hit:
            bad.append("%s: %s" % (m, hit.group(0).strip()))
    if bad:
        res["failed"] = names
        res["error"] = "forbidden tokens: " + "; ".join(bad)
        return res
    rc, log = lake_build(["Qats.Props." + pid])
    if rc != 0:
        # which theorems failed?  lean reports "error: file:line:col"; map lines to theorem names
        res["error"] = log[-6000:]
        res["failed"] = failed_theorems(pid, log) or names
        res["discharged"] = len(names) - len(res["failed"])
        res["wall_s"] = time.time() - t0
        return res
    # axiom audit
    audit = "import Qats.Props.%s\n" % pid + "".join("#print axioms %s\n" % n for n in names)
    ap = os.path.join(LEAN, ".audit_%s_%d.lean" % (pid, os.getpid()))
    with open(ap, "w") as f:
        f.write(audit)
    try:
        rc, out, err = sh(["lake", "env", "lean", ap], cwd=LEAN, timeout=1800)
    finally:
        os.unlink(ap)
    if rc != 0:
        res["error"] = "audit failed: " + (out + err)[-3000:]
        res["failed"] = names
        return res
    # parse:  'X' depends on axioms: [a, b]   |  'X' does not depend on any axioms
    txt = out.replace("\n", " ")
    for n in names:
        m = re.search(r"'%s' (does not depend on any axioms|depends on axioms: \[([^\]]*)\])" % re.escape(n), txt)
        if not m:
            res["failed"].append(n)
            continue
        axs = set(a.strip() for a in (m.group(2) or "").split(",") if a.strip())
        res["axioms"][n] = sorted(axs)
        if axs - ALLOWED_AXIOMS:
            res["failed"].append(n)
    res["discharged"] = len(names) - len(res["failed"])
    if res["failed"]:
        res["error"] = "axiom audit: " + ", ".join(res["failed"])
    if res.get("translator_errors"):
        res["error"] = (res["error"] or "") + " translator could not translate: %s" % res["translator_errors"]
        res["failed"] = res["failed"] + ["(generated definition) Qats.Gen." + k for k in res["translator_errors"]]
    res["wall_s"] = time.time() - t0
    return res


def failed_theorems(pid, log):
    path = os.path.join(LEAN, "Qats", "Props", pid + ".lean")
    lines = open(path).read().split("\n")
    starts = []
    for i, l in enumerate(lines):
        m = re.match(r"^(?:protected\s+)?theorem\s+([^\s:({\[]+)", l)
        if m:
            starts.append((i + 1, m.group(1)))
    failed = []
    for m in re.finditer(r"Props/%s\.lean:(\d+):\d+" % pid, log):
        ln = int(m.group(1))
        name = None
        for s, nme in starts:
            if s <= ln:
                name = nme
        if name and name not in failed:
            failed.append(name)
    return failed


class Driver:
    """Runs request lines through the Lean model, sharded over several interpreter processes."""

    def __init__(self):
        rc, log = lake_build(["Qats.Driver"])
        if rc != 0:
            raise InfraError("driver build failed:\n" + log[-4000:])

    def _run_shard(self, lines):
        if not lines:
            return []
        for attempt in range(3):
            rc, out, err = sh(["lake", "env", "lean", "--run", "Driver.lean"], cwd=LEAN, input="\n".join(lines) + "\n",
                              timeout=3000)
            if rc == 0:
                break
            time.sleep(2 + 3 * attempt)      # transient failures (interpreter start-up under load) are retried
        if rc != 0:
            raise InfraError("driver failed (rc=%s): %s %s" % (rc, err[-2000:], out[-300:]))
        res = out.split("\n")
        if res and res[-1] == "":
            res.pop()
        if len(res) != len(lines):
            raise InfraError("driver returned %d lines for %d requests" % (len(res), len(lines)))
        return res

    def run(self, lines, shards=None):
        lines = list(lines)
        n = len(lines)
        if n == 0:
            return []
        if shards is None:
            shards = max(1, min(NCPU, n // 2000))
        size = (n + shards - 1) // shards
        parts = [lines[i:i + size] for i in range(0, n, size)]
        with ThreadPoolExecutor(max_workers=len(parts)) as ex:
            outs = list(ex.map(self._run_shard, parts))
        return [r for part in outs for r in part]


# ----------------------------------------------------------------------------------------------------------
# known findings
# ----------------------------------------------------------------------------------------------------------
def load_known():
    p = os.path.join(VERIF, "known_findings.json")
    if not os.path.exists(p):
        return []
    return json.load(open(p))["findings"]


# ----------------------------------------------------------------------------------------------------------
# the check object
# ----------------------------------------------------------------------------------------------------------
@contextlib.contextmanager
def strict_env():
    """A process state that real callers have (pytest -W error, PYTHONWARNINGS=error, np.seterr(all='raise')): every warning is raised
    as an error and numpy raises on floating-point errors.  Used around implementation calls in sub-streams that hold on the unchanged
    tree; a call that only fails in this state leaves the objects in whatever state the exception left them -- the property's clauses
    are evaluated on them afterwards like after any other rejected call."""
    import warnings
    import numpy as np
    with warnings.catch_warnings():
        warnings.simplefilter("error")
        with np.errstate(all="raise"):
            yield


class Check:
    def __init__(self, pid, tier, seed):
        self.pid, self.tier, self.seed = pid, tier, seed
        self.rng = random.Random((seed * 1000003) ^ int(hashlib.sha1(pid.encode()).hexdigest()[:8], 16))
        self.t0 = time.time()
        self.evaluations = 0
        self.nontrivial = set()          # distinct canonical non-trivial cases (hashes)
        self.samples = []
        self.streams = {}                # per-stream counts
        self.distribution = {}
        self.disagreements = []          # dict(stream, input, model, impl)
        self.failing = []                # dict(oracle, input, expected, observed, finding=None)
        self.notes = []
        self.proof = None
        self.known = [k for k in load_known() if k["property"] == pid]
        self.matchers = {}               # finding id -> callable(failing_dict) -> bool
        self.assumptions = []
        self.partial = []
        self.extra = {}

    quick = property(lambda self: self.tier == "quick")

    # -- statistics ---------------------------------------------------------------------------------------
    def count(self, stream, n=1):
        self.streams[stream] = self.streams.get(stream, 0) + n
        self.evaluations += n

    def nontriv(self, key):
        self.nontrivial.add(hashlib.sha1(repr(key).encode()).hexdigest()[:16])

    def dist(self, key, n=1):
        self.distribution[key] = self.distribution.get(key, 0) + n

    def sample(self, s, cap=6):
        if len(self.samples) < cap:
            self.samples.append(s)

    # -- recording ----------------------------------------------------------------------------------------
    def disagree(self, stream, inp, model, impl):
        self.disagreements.append(dict(stream=stream, input=inp, model=model, impl=impl))

    def fail(self, oracle, inp, expected, observed, **kw):
        d = dict(oracle=oracle, input=inp, expected=expected, observed=observed)
        d.update(kw)
        self.failing.append(d)

    # -- verdict ------------------------------------------------------------------------------------------
    def _match_known(self, f):
        for k in self.known:
            if k.get("status") != "known":
                continue
            m = self.matchers.get(k["id"])
            if m is not None and m(f):
                return k
        return None

    def finish(self):
        wall = time.time() - self.t0
        pid = self.pid
        proof = self.proof or dict(obligations=0, discharged=0, failed=[], error="proof step not run", theorems=[])
        known_hits, new_fail = {}, []
        for f in self.failing:
            k = self._match_known(f)
            if k is not None:
                known_hits.setdefault(k["id"], (k, f))
            else:
                new_fail.append(f)
        unexplained_dis = []
        for d in self.disagreements:
            k = self._match_known(dict(oracle="correspondence:" + d["stream"], input=d["input"], expected=d["model"],
                                       observed=d["impl"]))
            if k is not None:
                known_hits.setdefault(k["id"], (k, d))
            else:
                unexplained_dis.append(d)
        proof_broken = bool(proof["failed"]) or proof.get("error") is not None or \
            proof["obligations"] != proof["discharged"] or proof["obligations"] == 0
        violation = None
        if new_fail:
            f = min(new_fail, key=lambda f: len(json.dumps(f, default=str)))
            violation = dict(kind="failing-input", **f)
            violation["broken"] = (["theorem " + t for t in proof["failed"]] +
                                   sorted(set("correspondence stream " + d["stream"] for d in unexplained_dis)))
        elif proof_broken or unexplained_dis:
            violation = dict(kind="no-failing-input-found",
                             broken=(["theorem " + t for t in proof["failed"]] or
                                     ([] if not proof_broken else ["build of Qats.Props." + pid])) +
                             sorted(set("correspondence stream " + d["stream"] for d in unexplained_dis)),
                             lean_error=proof.get("error"),
                             first_disagreement=(unexplained_dis[0] if unexplained_dis else None))
        # evidence
        ev = dict(
            property_id=pid, tier=self.tier, seed=self.seed, level="proof",
            coverage=dict(
                obligations=proof["obligations"], discharged=proof["discharged"],
                checker_cmd="cd lean && lake build Qats.Props.%s  (+ `#print axioms` audit of every theorem%s)" % (
                    pid, "; clean rebuild + leanchecker" if self.tier == "thorough" else ""),
                trusted_base=[
                    "Lean 4.33.0 kernel; Mathlib v4.33.0 as compiled on the image",
                    "axioms allowed: propext, Classical.choice, Quot.sound (audited per theorem on this run)",
                    "tie: harness/translate.py (formula translator) and/or the correspondence harness for this property",
                    "floating point, numpy/scipy/pandas/Qt semantics: modelled, not verified (DESIGN.md section 3)",
                ],
                theorems=proof["theorems"], axioms=proof.get("axioms", {}),
                partial=self.partial,
                evaluations=self.evaluations, distinct_nontrivial=len(self.nontrivial),
                rule=self.extra.pop("rule", ""),
                samples=self.samples or ["(none)"],
                traces_validated_against_impl=self.evaluations,
                streams=self.streams, distribution=self.distribution,
                disagreements=len(self.disagreements), failing_inputs=len(self.failing),
                known_findings_hit=sorted(known_hits), notes=self.notes, repo_head=repo_head(), **self.extra),
            assumptions=self.assumptions, wall_s=round(wall, 2), violations=0 if violation is None else 1)
        os.makedirs(os.path.join(VERIF, "evidence"), exist_ok=True)
        with open(os.path.join(VERIF, "evidence", pid + ".json"), "w") as fh:
            json.dump(ev, fh, indent=1, default=str)
        for kid, (k, f) in sorted(known_hits.items()):
            print("KNOWN-FINDING: property=%s %s: %s" % (pid, kid, k["what"]))
        if violation is None:
            print("OK property=%s tier=%s obligations=%d/%d evaluations=%d nontrivial=%d wall=%.1fs" % (
                pid, self.tier, proof["discharged"], proof["obligations"], self.evaluations, len(self.nontrivial), wall))
            return 0
        violation.update(property=pid, seed=self.seed, tier=self.tier, repo_head=repo_head())
        h = hashlib.sha1(json.dumps(violation, sort_keys=True, default=str).encode()).hexdigest()[:10]
        os.makedirs(os.path.join(VERIF, "replay"), exist_ok=True)
        rp = os.path.join("replay", "%s-%s.json" % (pid, h))
        violation["rerun"] = "./check %s --replay %s" % (pid, rp)
        with open(os.path.join(VERIF, rp), "w") as fh:
            json.dump(violation, fh, indent=1, default=str)
        tail = " no-failing-input-found" if violation["kind"] == "no-failing-input-found" else ""
        print("VIOLATION property=%s replay=%s%s" % (pid, rp, tail))
        return 1
