"""Which model definitions named in a property's theorem statements are executed by the line-protocol driver (and so compared with
the implementation)?  Textual and approximate (names resolved per model file); reported in the evidence, not a verdict."""
import glob
import os
import re

from . import core

L = os.path.join(core.LEAN, "Qats")
DEF = re.compile(r"^(?:@\[[^\]]*\]\s*)?(?:private\s+|protected\s+)?(?:partial\s+)?(?:def|abbrev|structure|inductive)\s+"
                 r"([A-Za-z_][A-Za-z0-9_\.']*)", re.M)


def _strip(t):
    t = re.sub(r"/-.*?-/", " ", t, flags=re.S)
    return re.sub(r"--[^\n]*", " ", t)


def _idents(text):
    return set(re.findall(r"[A-Za-z_][A-Za-z0-9_']*", text))


def coverage(pid):
    models = {}
    for f in glob.glob(L + "/Model/*.lean") + [L + "/Gen/Formulas.lean", L + "/Prelude.lean"]:
        if not os.path.exists(f):
            continue
        t = _strip(open(f).read())
        ms = list(DEF.finditer(t))
        defs = {}
        for i, m in enumerate(ms):
            defs[m.group(1).split(".")[-1]] = t[m.end(): ms[i + 1].start() if i + 1 < len(ms) else len(t)]
        models[os.path.basename(f)[:-5]] = defs
    allnames = {}
    for mf, defs in models.items():
        for d in defs:
            allnames.setdefault(d, set()).add(mf)
    drv = ""
    for f in glob.glob(L + "/Driver/*.lean") + [L + "/Driver.lean", L + "/Gen/DriverGen.lean"]:
        drv += _strip(open(f).read()) + "\n"
    reach, work = set(), [(mf, d) for d in _idents(drv) if d in allnames for mf in allnames[d]]
    while work:
        mf, d = work.pop()
        if (mf, d) in reach:
            continue
        reach.add((mf, d))
        for e in _idents(models[mf][d]):
            for mf2 in allnames.get(e, ()):
                if (mf2, e) not in reach:
                    work.append((mf2, e))
    pf = os.path.join(L, "Props", pid + ".lean")
    t = _strip(open(pf).read())
    used = set()
    for s in re.findall(r"theorem\s+[^\s]+(.*?):=", t, flags=re.S):
        used |= {d for d in _idents(s) if d in allnames}
    missing = sorted(d for d in used if not any((mf, d) in reach for mf in allnames[d]))
    return dict(model_definitions_named_in_theorem_statements=len(used), of_which_not_executed_by_the_driver=missing,
                note="definitions listed here are specification-level predicates / reference functions, or code models that are tied "
                     "only through harness-side oracles (see DESIGN.md section 9.6)")
