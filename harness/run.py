"""./check <id> [quick|thorough] | --replay <file>"""
import importlib
import json
import os
import sys
import traceback

from . import core


def main(argv):
    if len(argv) < 1:
        print("usage: ./check <id> [quick|thorough] | ./check <id> --replay <file>")
        return 2
    pid = argv[0].upper()
    seed = int(os.environ.get("VERIF_SEED", "1"))
    mod = importlib.import_module("harness.props." + pid.lower())
    if len(argv) >= 3 and argv[1] == "--replay":
        rp = json.load(open(argv[2]))
        return mod.replay(rp)
    tier = argv[1] if len(argv) > 1 else os.environ.get("VERIF_TIER", "quick")
    if tier not in ("quick", "thorough"):
        print("unknown tier", tier)
        return 2
    chk = core.Check(pid, tier, seed)
    try:
        chk.proof = core.prove(pid, translate=getattr(mod, "USES_TRANSLATOR", False),
                               prefixes=getattr(mod, "ANCHOR_PREFIX", ()))
        if tier == "thorough":
            core.leancheck(chk)
        try:
            from . import tiecov
            chk.extra["tie_coverage"] = tiecov.coverage(pid)
        except Exception as e:       # a report, never a verdict
            chk.extra["tie_coverage"] = dict(error=str(e)[:200])
        from . import implcov
        recording = implcov.start()
        try:
            mod.run(chk)
        finally:
            if recording:
                implcov.stop()
        if recording:
            try:
                chk.extra["impl_coverage"] = implcov.report(pid)
            except Exception as e:   # a report, never a verdict
                chk.extra["impl_coverage"] = dict(error=str(e)[:200])
        return chk.finish()
    except core.InfraError as e:
        print("INFRA-ERROR property=%s %s" % (pid, e))
        return 2
    except Exception:
        traceback.print_exc()
        print("INFRA-ERROR property=%s unexpected exception in the harness" % pid)
        return 2


if __name__ == "__main__":
    sys.exit(main(sys.argv[1:]))
