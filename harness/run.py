"""./check <id> [quick|thorough] | --replay <file>"""
import importlib
import json
import os
import sys
import traceback

from . import core


def main(argv):
    if len(argv) < 1:
        print("usage: ./check <id> [quick|thorough] | ./check <id> --replay <file>")
        return 2
    pid = argv[0].upper()
    seed = int(os.environ.get("VERIF_SEED", "1"))
    mod = importlib.import_module("harness.props." + pid.lower())
    if len(argv) >= 3 and argv[1] == "--replay":
        rp = json.load(open(argv[2]))
        return mod.replay(rp)
    tier = argv[1] if len(argv) > 1 else os.environ.get("VERIF_TIER", "quick")
    if tier not in ("quick", "thorough"):
        print("unknown tier", tier)
        return 2
    # the process environment is not part of any property's quantifier, so the properties must hold in every environment real
    # callers have: the local time zone is set per seed (zones with daylight saving; offsets of whole hours, 3.5 h, 10.5 h with a half-hour saving shift, 12.75 h) before the
    # library is imported; nothing in qats may depend on it (absolute instants are naive date-times plus seconds)
    import time as _time
    tz = os.environ.get("VERIF_TZ") or ["Europe/Oslo", "America/St_Johns", "Australia/Lord_Howe", "Pacific/Chatham"][seed % 4]
    os.environ["TZ"] = tz
    if hasattr(_time, "tzset"):
        _time.tzset()
    chk = core.Check(pid, tier, seed)
    chk.extra["environment"] = dict(TZ=tz, note="strict sub-streams (warnings raised as errors, numpy floating-point errors raised) are "
                                                 "listed in `streams` where a check has them")
    try:
        chk.proof = core.prove(pid, translate=getattr(mod, "USES_TRANSLATOR", False),
                               prefixes=getattr(mod, "ANCHOR_PREFIX", ()))
        if tier == "thorough":
            core.leancheck(chk)
        try:
            from . import tiecov
            chk.extra["tie_coverage"] = tiecov.coverage(pid)
        except Exception as e:       # a report, never a verdict
            chk.extra["tie_coverage"] = dict(error=str(e)[:200])
        from . import implcov
        recording = implcov.start()
        try:
            mod.run(chk)
        finally:
            if recording:
                implcov.stop()
        if recording:
            try:
                chk.extra["impl_coverage"] = implcov.report(pid)
            except Exception as e:   # a report, never a verdict
                chk.extra["impl_coverage"] = dict(error=str(e)[:200])
        return chk.finish()
    except core.InfraError as e:
        print("INFRA-ERROR property=%s %s" % (pid, e))
        return 2
    except Exception:
        traceback.print_exc()
        print("INFRA-ERROR property=%s unexpected exception in the harness" % pid)
        return 2


if __name__ == "__main__":
    sys.exit(main(sys.argv[1:]))
